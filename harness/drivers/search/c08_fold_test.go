//go:build verif

package search_test

import (
	"fmt"
	"regexp/syntax"
	"sort"
	"testing"
	"unicode"

	"github.com/sourcegraph/zoekt"
	"github.com/sourcegraph/zoekt/internal/verifkit"
	"github.com/sourcegraph/zoekt/internal/verifkit/corpus"
)

// C08: every rune with a non-trivial simple-fold orbit or lower-case image. For each orbit the
// corpus holds one document per member ("xx<m>yy"); each member p is searched case-insensitively
// as a substring and as regular expressions denoting the same language that the engine does not
// collapse into a substring (one rune wrapped in {1}, in a two-element class, the literal split
// around an empty match), plus the plainly parsed literal (collapses: control).

func c08Orbits() [][]rune {
	seen := map[rune]bool{}
	var res [][]rune
	for r := rune(0); r <= unicode.MaxRune; r++ {
		if seen[r] {
			continue
		}
		orb := []rune{r}
		for f := unicode.SimpleFold(r); f != r; f = unicode.SimpleFold(f) {
			orb = append(orb, f)
		}
		// runes whose ToLower/ToUpper image lies outside the SimpleFold orbit join the orbit's test set
		extra := map[rune]bool{}
		for _, m := range orb {
			for _, x := range []rune{unicode.ToLower(m), unicode.ToUpper(m), unicode.ToTitle(m)} {
				extra[x] = true
			}
		}
		for x := range extra {
			found := false
			for _, m := range orb {
				if m == x {
					found = true
				}
			}
			if !found {
				orb = append(orb, x)
			}
		}
		if len(orb) < 2 {
			continue
		}
		for _, m := range orb {
			seen[m] = true
		}
		sort.Slice(orb, func(i, j int) bool { return orb[i] < orb[j] })
		res = append(res, orb)
	}
	return res
}

func c08Lit(s string) *syntax.Regexp { return &syntax.Regexp{Op: syntax.OpLiteral, Rune: []rune(s)} }

func TestVerif_C08_Fold(t *testing.T) {
	tr := verifkit.Open(t)
	defer tr.Close()
	all := c08Orbits()
	// notable orbits always; the rest sampled in the quick tier
	notable := map[rune]bool{'Ⱥ': true, 'ɐ': true, 'k': true, 's': true, 'i': true, 'ß': true, 'σ': true, 'µ': true, 'ǆ': true, 'θ': true, 'ι': true, 'ω': true, 'å': true, 'ᲀ': true, 'ꙋ': true}
	var pick [][]rune
	rng := verifkit.Rng(8)
	frac := verifkit.EnvInt("VERIF_ORBIT_PERCENT", verifkit.Pick(8, 100))
	for _, o := range all {
		keep := rng.Intn(100) < frac
		for _, m := range o {
			if notable[m] {
				keep = true
			}
		}
		if keep {
			pick = append(pick, o)
		}
	}
	// fold table: SimpleFold orbits of every rune used (members + padding)
	foldSeen := map[rune]bool{}
	var orbits [][]int
	addFold := func(r rune) {
		if foldSeen[r] {
			return
		}
		orb := []int{int(r)}
		foldSeen[r] = true
		for f := unicode.SimpleFold(r); f != r; f = unicode.SimpleFold(f) {
			orb = append(orb, int(f))
			foldSeen[f] = true
		}
		if len(orb) > 1 {
			sort.Ints(orb)
			orbits = append(orbits, orb)
		}
	}
	for _, o := range pick {
		for _, m := range o {
			addFold(m)
		}
	}
	for _, r := range "xyXY.go/repfdNOT-INDEXED: contains binary content too few trigrams0123456789" {
		addFold(r)
	}
	tr.Emit(verifkit.M{"ev": "fold", "orbits": orbits})
	batch := 12
	cid := 0
	for b := 0; b < len(pick); b += batch {
		end := min(b+batch, len(pick))
		cid++
		c := &corpus.Corpus{ID: cid}
		c.Repos = []corpus.Repo{{Name: "repo/f", ID: 81, Branches: []string{"HEAD"}}}
		k := 0
		for _, o := range pick[b:end] {
			for _, m := range o {
				k++
				c.Docs = append(c.Docs, corpus.Doc{Repo: 0, Name: fmt.Sprintf("d%d.go", k), Content: "xx" + string(m) + "yy", Branches: []int{0}, Lang: "Go"})
			}
		}
		l := c01Load(t, c, false)
		tr.Emit(c.Event())
		for oi, o := range pick[b:end] {
			for _, p := range o {
				orbitTag := verifkit.M{"orbit": int(o[0]), "member": int(p)}
				run := func(form string, q *corpus.Q) {
					orbitTag["form"] = form
					opts := &zoekt.SearchOptions{ChunkMatches: (oi+int(p))%2 == 0}
					c01Search(tr, l, "shard", 0, q, opts, corpus.DetailRanges, orbitTag)
				}
				long := "xx" + string(p) + "yy"
				// trigram path
				run("substr5", &corpus.Q{T: "substr", Pat: long, CT: true})
				run("regex-plain5", &corpus.Q{T: "regex", Pat: "xx" + string(p) + "yy", CT: true,
					RE: c08Lit(long)})
				run("regex-rep5", &corpus.Q{T: "regex", Pat: "xx" + string(p) + "{1}yy", CT: true,
					RE: &syntax.Regexp{Op: syntax.OpConcat, Sub: []*syntax.Regexp{c08Lit("xx"),
						{Op: syntax.OpRepeat, Min: 1, Max: 1, Sub: []*syntax.Regexp{c08Lit(string(p))}}, c08Lit("yy")}}})
				run("regex-class5", &corpus.Q{T: "regex", Pat: "xx[" + string(p) + string(p) + "]yy", CT: true,
					RE: &syntax.Regexp{Op: syntax.OpConcat, Sub: []*syntax.Regexp{c08Lit("xx"),
						{Op: syntax.OpCharClass, Rune: []rune{p, p}}, c08Lit("yy")}}})
				run("regex-split5", &corpus.Q{T: "regex", Pat: "xx" + string(p) + "(?:)yy", CT: true,
					RE: &syntax.Regexp{Op: syntax.OpConcat, Sub: []*syntax.Regexp{c08Lit("xx" + string(p)),
						{Op: syntax.OpEmptyMatch}, c08Lit("yy")}}})
				// short patterns (regexp engine inside newSubstringMatchTree)
				run("substr1", &corpus.Q{T: "substr", Pat: string(p), CT: true})
				run("substr2", &corpus.Q{T: "substr", Pat: string(p) + "y", CT: true})
				run("regex-class1", &corpus.Q{T: "regex", Pat: "[" + string(p) + string(p) + "]", CT: true,
					RE: &syntax.Regexp{Op: syntax.OpCharClass, Rune: []rune{p, p}}})
			}
		}
		l.Close()
	}
}
