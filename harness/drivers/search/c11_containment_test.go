//go:build verif

package search_test

// C11: corrupt shard files never crash or hang the searcher; other shards' results unaffected.
//
// Parent (TestVerif_C11_Faults): builds healthy shards and victim shards (simple, compound, with
// and without .meta sidecar) from a small corpus, turns fault classes (TLC scripts from
// spec/sys/Containment.tla: section x position x mutation) into concrete bytes of the victim
// file using the table of contents it parses from that file, adds truncations at every k-th byte
// and seeded random garbage, and runs them in supervised CHILD processes
// (TestVerif_C11_Child).  A child places the damaged file next to the healthy shards, opens the
// directory with search.NewDirectorySearcher, runs a fixed set of searches and listings and
// journals what happened; a watchdog (process CPU time, memory growth, address-space limit) and
// the parent (exit status, stderr) turn everything else into died / hang / oom.
// The driver decides nothing: Trace_Containment.tla does.

import (
	"bufio"
	"bytes"
	"context"
	"encoding/binary"
	"encoding/json"
	"fmt"
	"io"
	"log"
	"os"
	"os/exec"
	"path/filepath"
	"regexp"
	"runtime"
	"runtime/metrics"
	"sort"
	"strconv"
	"strings"
	"sync"
	"sync/atomic"
	"syscall"
	"testing"
	"time"

	"github.com/sourcegraph/zoekt"
	"github.com/sourcegraph/zoekt/index"
	"github.com/sourcegraph/zoekt/internal/verifkit"
	"github.com/sourcegraph/zoekt/internal/verifkit/corpus"
	"github.com/sourcegraph/zoekt/query"
	"github.com/sourcegraph/zoekt/search"
)

type c11M = verifkit.M

// ---------------------------------------------------------------- corpus and shards

func c11Corpus() *corpus.Corpus {
	c := &corpus.Corpus{ID: 11}
	repo := func(name string, id uint32, shard int) {
		c.Repos = append(c.Repos, corpus.Repo{Name: name, ID: id, Branches: []string{"main", "dev"}, Shard: shard,
			Meta: map[string]string{"license": "MIT"}, Public: true})
	}
	repo("healthy/one", 11, 0)
	repo("healthy/two", 12, 1)
	repo("healthy/three", 13, 1)
	repo("victim/simple", 21, 2)
	repo("victim/ca", 22, 3)
	repo("victim/cb", 23, 3)
	texts := []struct {
		name, content, lang string
		br                  []int
		syms                [][2]int
	}{
		{"main.go", "package main\n\nfunc Foo() {\n\tneedle1 := 1\n}\n// Needle two é中\nfunc Bar() {}\n", "Go", []int{0, 1}, [][2]int{{19, 22}, {65, 68}}},
		{"dir/util.go", "package dir\n\nvar needle3 = \"x\"\nfunc FooBar() int { return 0 }\n", "Go", []int{1}, [][2]int{{17, 24}, {36, 42}}},
		{"README.md", "# Title\n\nSome text with a needle9 and NEEDLE and more text.\nline é\n", "Markdown", []int{0}, nil},
		{"data/main.txt", strings.Repeat("abc def ghi jkl mno pqr stu vwx yz0 123 456 789\n", 6) + "needle7 at the end", "Text", []int{0, 1}, nil},
		{"empty.txt", "", "Text", []int{0}, nil},
		{"bin.dat", "bin\x00ary", "", []int{1}, nil},
	}
	for ri := range c.Repos {
		for k, t := range texts {
			if (ri+k)%7 == 6 {
				continue
			}
			content := t.content
			if t.content != "" && !strings.Contains(t.content, "\x00") {
				content = t.content + fmt.Sprintf("\n// repo %d file %d\n", ri, k)
			}
			c.Docs = append(c.Docs, corpus.Doc{Repo: ri, Name: t.name, Content: content, Branches: t.br, Lang: t.lang, Syms: t.syms})
		}
	}
	return c
}

var c11Healthy = map[string]bool{"healthy/one": true, "healthy/two": true, "healthy/three": true}

type c11Bases struct {
	root    string
	healthy []string          // shard files
	victims map[string]string // base name -> directory holding the victim shard (and sidecar)
}

func c11Copy(dst, src string) error {
	b, err := os.ReadFile(src)
	if err != nil {
		return err
	}
	return os.WriteFile(dst, b, 0o644)
}

func c11Shard(dir string) string {
	m, _ := filepath.Glob(filepath.Join(dir, "*.zoekt"))
	if len(m) != 1 {
		panic(fmt.Sprintf("expected one shard in %s, have %v", dir, m))
	}
	return m[0]
}

func c11Build(root string) (*c11Bases, error) {
	all := filepath.Join(root, "all")
	if err := os.MkdirAll(all, 0o755); err != nil {
		return nil, err
	}
	paths, err := c11Corpus().Materialise(all)
	if err != nil {
		return nil, err
	}
	b := &c11Bases{root: root, victims: map[string]string{}}
	hdir := filepath.Join(root, "healthy")
	os.MkdirAll(hdir, 0o755)
	for _, sh := range []int{0, 1} {
		dst := filepath.Join(hdir, filepath.Base(paths[sh]))
		if err := c11Copy(dst, paths[sh]); err != nil {
			return nil, err
		}
		b.healthy = append(b.healthy, dst)
	}
	for name, sh := range map[string]int{"simple": 2, "compound": 3} {
		for _, meta := range []bool{false, true} {
			bn := name
			if meta {
				bn += "+meta"
			}
			vdir := filepath.Join(root, "victim-"+bn)
			os.MkdirAll(vdir, 0o755)
			dst := filepath.Join(vdir, filepath.Base(paths[sh]))
			if err := c11Copy(dst, paths[sh]); err != nil {
				return nil, err
			}
			if meta {
				repos, _, err := index.ReadMetadataPath(dst)
				if err != nil {
					return nil, err
				}
				var v any = repos
				if name == "simple" {
					v = repos[0]
				}
				tmp, final, err := index.JsonMarshalRepoMetaTemp(dst, v)
				if err != nil {
					return nil, err
				}
				if err := os.Rename(tmp, final); err != nil {
					return nil, err
				}
			}
			b.victims[bn] = vdir
		}
	}
	return b, nil
}

// ---------------------------------------------------------------- file layout (own TOC parser)

type c11Range struct{ a, b int }

type c11Layout struct {
	size  int
	tags  []c11M              // tag, kind in file order
	parts map[string]c11Range // "section/part" -> byte range
}

func c11ParseTOC(data []byte) (*c11Layout, error) {
	n := len(data)
	if n < 8 {
		return nil, fmt.Errorf("file too short")
	}
	tocOff, tocSz := int(binary.BigEndian.Uint32(data[n-8:])), int(binary.BigEndian.Uint32(data[n-4:]))
	if tocOff+tocSz > n-8 || tocSz < 4 {
		return nil, fmt.Errorf("bad trailer %d+%d", tocOff, tocSz)
	}
	l := &c11Layout{size: n, parts: map[string]c11Range{}}
	l.parts["trailer/off"] = c11Range{n - 8, n - 4}
	l.parts["trailer/sz"] = c11Range{n - 4, n}
	l.parts["toc/count"] = c11Range{tocOff, tocOff + 4}
	if binary.BigEndian.Uint32(data[tocOff:]) != 0 {
		return nil, fmt.Errorf("not a tagged table of contents")
	}
	p, end := tocOff+4, tocOff+tocSz
	be := func(q int) int { return int(binary.BigEndian.Uint32(data[q:])) }
	for p < end {
		start := p
		tl, k := binary.Uvarint(data[p:])
		if k <= 0 {
			return nil, fmt.Errorf("bad tag length at %d", p)
		}
		tag := string(data[p+k : p+k+int(tl)])
		p += k + int(tl)
		kind, k := binary.Uvarint(data[p:])
		if k <= 0 {
			return nil, fmt.Errorf("bad kind at %d", p)
		}
		p += k
		l.parts[tag+"/entry-tag"] = c11Range{start, p}
		kn := map[uint64]string{0: "simple", 1: "compound", 2: "lazy"}[kind]
		if kn == "" {
			return nil, fmt.Errorf("unknown section kind %d", kind)
		}
		l.tags = append(l.tags, c11M{"tag": tag, "kind": kn})
		l.parts[tag+"/entry-off"] = c11Range{p, p + 4}
		l.parts[tag+"/entry-sz"] = c11Range{p + 4, p + 8}
		l.parts[tag+"/data"] = c11Range{be(p), be(p) + be(p+4)}
		p += 8
		if kn != "simple" {
			l.parts[tag+"/entry-ioff"] = c11Range{p, p + 4}
			l.parts[tag+"/entry-isz"] = c11Range{p + 4, p + 8}
			l.parts[tag+"/index"] = c11Range{be(p), be(p) + be(p+4)}
			p += 8
		}
	}
	if p != end {
		return nil, fmt.Errorf("table of contents ends at %d, not %d", p, end)
	}
	return l, nil
}

// where names the smallest part of the layout that contains the offset
func (l *c11Layout) where(off int) string {
	best, bestLen := "outside", 1<<31
	for k, r := range l.parts {
		if r.a <= off && off < r.b && r.b-r.a < bestLen {
			best, bestLen = fmt.Sprintf("%s+%d", k, off-r.a), r.b-r.a
		}
	}
	return best
}

// ---------------------------------------------------------------- cases

type c11Case struct {
	I       int      `json:"i"`
	Family  string   `json:"family"` // class | trunc | random
	Base    string   `json:"base"`   // simple | compound | simple+meta | compound+meta
	Target  string   `json:"target"` // shard | sidecar
	Section string   `json:"section"`
	Part    string   `json:"part"`
	Pos     string   `json:"pos"`
	Mut     string   `json:"mut"`
	Off     int      `json:"off"`
	Trunc   int      `json:"trunc"` // >= 0: cut the file to this length
	Set     [][2]int `json:"set"`   // (offset, new byte value)
	Replace string   `json:"replace"`
	HasRepl bool     `json:"hasrepl"`
	Where   string   `json:"where"` // part of the file layout that holds Off
}

func (c *c11Case) apply(data []byte) []byte {
	if c.HasRepl {
		return []byte(c.Replace)
	}
	out := append([]byte(nil), data...)
	for _, s := range c.Set {
		if s[0] >= 0 && s[0] < len(out) {
			out[s[0]] = byte(s[1])
		}
	}
	if c.Trunc >= 0 && c.Trunc <= len(out) {
		out = out[:c.Trunc]
	}
	return out
}

type c11Class struct {
	Target  string `json:"target"`
	Section string `json:"section"`
	Part    string `json:"part"`
	Pos     string `json:"pos"`
	Mut     string `json:"mut"`
}

var c11Replacements = map[string]string{
	"replace:empty": "", "replace:null": "null", "replace:[]": "[]", "replace:{}": "{}", "replace:[null]": "[null]",
	"replace:[{}]": "[{}]", "replace:0": "0", "replace:string": "\"x\"", "replace:[[]]": "[[]]",
	"replace:nested": strings.Repeat("[", 2000) + strings.Repeat("]", 2000),
}

// concrete returns the concrete case of a fault class on the given file, or false if the class
// does not exist in this file (empty part, position outside the file, mutation without effect).
func c11Concrete(cl c11Class, data []byte, rg c11Range) (c11Case, bool) {
	c := c11Case{Family: "class", Target: cl.Target, Section: cl.Section, Part: cl.Part, Pos: cl.Pos, Mut: cl.Mut, Trunc: -1}
	if r, ok := c11Replacements[cl.Mut]; ok {
		c.Replace, c.HasRepl = r, true
		return c, true
	}
	var off int
	switch cl.Pos {
	case "first":
		off = rg.a
	case "first+1":
		off = rg.a + 1
	case "middle":
		off = rg.a + (rg.b-rg.a)/2
	case "last":
		off = rg.b - 1
	case "one-past":
		off = rg.b
	default:
		return c, false
	}
	if cl.Pos != "one-past" && (rg.b <= rg.a || off < rg.a || off >= rg.b) {
		return c, false
	}
	c.Off = off
	if cl.Mut == "truncate-here" {
		if off >= len(data) {
			return c, false
		}
		c.Trunc = off
		return c, true
	}
	if off < 0 || off >= len(data) {
		return c, false
	}
	old := data[off]
	var nb byte
	switch cl.Mut {
	case "flip0":
		nb = old ^ 0x01
	case "flip7":
		nb = old ^ 0x80
	case "zero":
		nb = 0
	case "ff":
		nb = 0xff
	case "plus1":
		nb = old + 1
	default:
		return c, false
	}
	if nb == old {
		return c, false
	}
	c.Set = [][2]int{{off, int(nb)}}
	return c, true
}

// ---------------------------------------------------------------- operations (child and baseline)

func c11Re(p string) query.Q {
	re, err := corpus.ParseRegexp(p)
	if err != nil {
		panic(err)
	}
	return &query.Regexp{Regexp: re, Content: true, CaseSensitive: true}
}

type c11Op struct {
	Op string
	Q  query.Q
}

func c11Ops() []c11Op {
	return []c11Op{
		{"search", &query.Substring{Pattern: "needle", Content: true}},
		{"search", &query.Substring{Pattern: "Needle", Content: true, CaseSensitive: true}},
		{"search", c11Re("ne+dle[0-9]")},
		{"search", &query.Symbol{Expr: &query.Substring{Pattern: "Foo", Content: true, CaseSensitive: true}}},
		{"search", &query.Symbol{Expr: c11Re("B.r")}},
		{"search", &query.Const{Value: true}},
		{"search", query.NewAnd(&query.Branch{Pattern: "dev"}, &query.Substring{Pattern: "needle", Content: true})},
		{"search", &query.Substring{Pattern: "main", FileName: true}},
		{"search", &query.Substring{Pattern: "é", Content: true}},
		{"search", &query.Language{Language: "Go"}},
		{"list", &query.Const{Value: true}},
		{"list", &query.Substring{Pattern: "needle7", Content: true}},
	}
}

type c11OpResult struct {
	Op      string   `json:"op"`
	Q       int      `json:"q"`
	Outcome string   `json:"outcome"` // ok | crash | error
	Healthy []string `json:"healthy"`
	Victim  int      `json:"victim"` // number of results attributed to other repositories
	Msg     string   `json:"msg"`
}

func c11RunOps(ss zoekt.Streamer, phase func(string)) []c11OpResult {
	var res []c11OpResult
	ctx := context.Background()
	for k, op := range c11Ops() {
		phase(fmt.Sprintf("%s:%d", op.Op, k+1))
		r := c11OpResult{Op: op.Op, Q: k + 1, Outcome: "ok", Healthy: []string{}}
		if op.Op == "search" {
			sr, err := ss.Search(ctx, op.Q, &zoekt.SearchOptions{})
			switch {
			case err != nil:
				r.Outcome, r.Msg = "error", err.Error()
			default:
				if sr.Stats.Crashes >= 1 {
					r.Outcome = "crash"
				}
				for _, f := range sr.Files {
					if !c11Healthy[f.Repository] {
						r.Victim++
						continue
					}
					var sb strings.Builder
					fmt.Fprintf(&sb, "%s|%s|%s|%s", f.Repository, f.FileName, strings.Join(f.Branches, ","), f.Language)
					for _, lm := range f.LineMatches {
						fmt.Fprintf(&sb, "|%d:", lm.LineNumber)
						for _, lf := range lm.LineFragments {
							fmt.Fprintf(&sb, "%d+%d,", lf.LineOffset, lf.MatchLength)
						}
					}
					r.Healthy = append(r.Healthy, sb.String())
				}
			}
		} else {
			rl, err := ss.List(ctx, op.Q, nil)
			switch {
			case err != nil:
				r.Outcome, r.Msg = "error", err.Error()
			default:
				if rl.Crashes >= 1 {
					r.Outcome = "crash"
				}
				for _, e := range rl.Repos {
					if !c11Healthy[e.Repository.Name] {
						r.Victim++
						continue
					}
					r.Healthy = append(r.Healthy, fmt.Sprintf("%s|%d|%d branches|%d docs|%d shards|%d bytes", e.Repository.Name, e.Repository.ID,
						len(e.Repository.Branches), e.Stats.Documents, e.Stats.Shards, e.Stats.ContentBytes))
				}
			}
		}
		sort.Strings(r.Healthy)
		res = append(res, r)
	}
	return res
}

// ---------------------------------------------------------------- child

type c11Result struct {
	Func  string        `json:"func"` // hang / oom: first zoekt function of a goroutine that is running
	I     int           `json:"i"`
	Proc  string        `json:"proc"`  // alive | hang | oom   (died is decided by the parent)
	Phase string        `json:"phase"` // where the process was when the verdict was taken
	Load  string        `json:"load"`  // ok | err | unknown
	Ops   []c11OpResult `json:"ops"`
	Msg   string        `json:"msg"`
}

type c11Job struct {
	Healthy []string          `json:"healthy"`
	Victims map[string]string `json:"victims"`
	Cases   []c11Case         `json:"cases"`
}

// user CPU time of the process: a loop that does not end burns user time; kernel time (page
// reclaim on an overcommitted machine, charged to whoever faults) is deliberately not counted.
func c11CPU() time.Duration {
	var ru syscall.Rusage
	syscall.Getrusage(syscall.RUSAGE_SELF, &ru)
	return time.Duration(ru.Utime.Nano())
}

func c11Mem() uint64 {
	s := []metrics.Sample{{Name: "/memory/classes/total:bytes"}}
	metrics.Read(s)
	return s[0].Value.Uint64()
}

func c11VmSize() uint64 {
	b, _ := os.ReadFile("/proc/self/status")
	for _, l := range strings.Split(string(b), "\n") {
		if strings.HasPrefix(l, "VmSize:") {
			if f := strings.Fields(l); len(f) >= 2 {
				kb, _ := strconv.ParseUint(f[1], 10, 64)
				return kb << 10
			}
		}
	}
	return 0
}

type c11LogBuf struct {
	mu sync.Mutex
	b  bytes.Buffer
}

func (l *c11LogBuf) Write(p []byte) (int, error) {
	l.mu.Lock()
	defer l.mu.Unlock()
	if l.b.Len() < 1<<20 {
		l.b.Write(p)
	}
	return len(p), nil
}

func (l *c11LogBuf) take() string {
	l.mu.Lock()
	defer l.mu.Unlock()
	s := l.b.String()
	l.b.Reset()
	return s
}

// one case inside the child: directory = healthy shards + damaged victim
func c11OneCase(job *c11Job, c *c11Case, work string, lb *c11LogBuf, phase func(string)) c11Result {
	res := c11Result{I: c.I, Proc: "alive", Load: "unknown", Ops: []c11OpResult{}}
	phase("setup")
	dir, err := os.MkdirTemp(work, "c11c")
	if err != nil {
		panic(err)
	}
	defer os.RemoveAll(dir)
	for _, h := range job.Healthy {
		if err := os.Link(h, filepath.Join(dir, filepath.Base(h))); err != nil {
			panic(err)
		}
	}
	vsrc := c11Shard(job.Victims[c.Base])
	vdst := filepath.Join(dir, filepath.Base(vsrc))
	shard, err := os.ReadFile(vsrc)
	if err != nil {
		panic(err)
	}
	side, sideErr := os.ReadFile(vsrc + ".meta")
	if c.Target == "shard" {
		shard = c.apply(shard)
	} else {
		side = c.apply(side)
	}
	if err := os.WriteFile(vdst, shard, 0o644); err != nil {
		panic(err)
	}
	if sideErr == nil {
		if err := os.WriteFile(vdst+".meta", side, 0o644); err != nil {
			panic(err)
		}
	}
	lb.take()
	phase("load")
	ss, err := search.NewDirectorySearcher(dir)
	if err != nil {
		// the directory watcher could not be set up: a problem of the environment
		res.Proc, res.Msg = "infra", "NewDirectorySearcher: "+err.Error()
		return res
	}
	logged := lb.take()
	res.Load = "ok"
	if strings.Contains(logged, "reloading: "+vdst) {
		res.Load = "err"
		if i := strings.Index(logged, "reloading: "+vdst); i >= 0 {
			m := logged[i+len("reloading: "+vdst):]
			if j := strings.IndexByte(m, '\n'); j >= 0 {
				m = m[:j]
			}
			res.Msg = strings.ReplaceAll(strings.TrimSpace(m), dir, "")
		}
	}
	res.Ops = c11RunOps(ss, phase)
	phase("close")
	ss.Close()
	phase("done")
	return res
}

// c11Busy names what the process is busy with: the first zoekt function on the stack of a
// goroutine that is running or runnable (not the watchdog).
func c11Busy() string {
	buf := make([]byte, 8<<20)
	buf = buf[:runtime.Stack(buf, true)]
	best, bestRank := "", 99
	for _, g := range strings.Split(string(buf), "\n\n") {
		lines := strings.Split(g, "\n")
		if len(lines) < 2 || strings.Contains(g, "c11Busy") {
			continue // the watchdog itself
		}
		rank := 0
		switch {
		case strings.Contains(lines[0], "[running"):
		case strings.Contains(lines[0], "[runnable"), strings.Contains(lines[0], "[GC assist"):
			rank = 1
		default:
			continue
		}
		for _, l := range lines[1:] {
			if m := c11FrameRe.FindStringSubmatch(l); m != nil {
				fn := strings.TrimPrefix(m[1], "github.com/sourcegraph/zoekt/")
				if strings.HasSuffix(fn, ".Close") {
					rank += 2 // unmapping a file is never the loop
				}
				if rank < bestRank {
					best, bestRank = fn, rank
				}
				break
			}
		}
	}
	return best
}

func TestVerif_C11_Child(t *testing.T) {
	jobPath, outPath := os.Getenv("C11_CHILD_JOB"), os.Getenv("C11_CHILD_OUT")
	if jobPath == "" || outPath == "" {
		t.Skip("child of TestVerif_C11_Faults")
	}
	from, stride := verifkit.EnvInt("C11_CHILD_FROM", 0), verifkit.EnvInt("C11_CHILD_STRIDE", 1)
	cpuLimit := time.Duration(verifkit.EnvInt("C11_CPU_MS", 3000)) * time.Millisecond
	memLimit := uint64(verifkit.EnvInt("C11_MEM_MB", 512)) << 20
	wallLimit := 300 * time.Second
	raw, err := os.ReadFile(jobPath)
	if err != nil {
		t.Fatal(err)
	}
	var job c11Job
	if err := json.Unmarshal(raw, &job); err != nil {
		t.Fatal(err)
	}
	out, err := os.OpenFile(outPath, os.O_CREATE|os.O_WRONLY|os.O_APPEND, 0o644)
	if err != nil {
		t.Fatal(err)
	}
	defer out.Close()
	lb := &c11LogBuf{}
	log.SetOutput(lb)
	work := os.Getenv("VERIF_WORK")
	if work == "" {
		work = t.TempDir()
	}
	if vm := c11VmSize(); vm > 0 {
		lim := vm + 4*memLimit
		syscall.Setrlimit(syscall.RLIMIT_AS, &syscall.Rlimit{Cur: lim, Max: lim})
	}
	emit := func(r c11Result) {
		b, _ := json.Marshal(r)
		out.Write(append(append([]byte("R "), b...), '\n'))
	}
	var phase atomic.Value
	for i := from; i < len(job.Cases); i += stride {
		c := &job.Cases[i]
		fmt.Fprintf(out, "B %d\n", c.I)
		cpu0, mem0, t0 := c11CPU(), c11Mem(), time.Now()
		done := make(chan c11Result, 1)
		// the journal knows the phase before it starts (one write per phase, not buffered)
		setPhase := func(p string) {
			phase.Store(p)
			fmt.Fprintf(out, "P %d %s\n", c.I, p)
		}
		go func() { done <- c11OneCase(&job, c, work, lb, setPhase) }()
		tick := time.NewTicker(5 * time.Millisecond)
	wait:
		for {
			select {
			case r := <-done:
				emit(r)
				break wait
			case <-tick.C:
				ph, _ := phase.Load().(string)
				verdict := ""
				if m := c11Mem(); m > mem0 && m-mem0 > memLimit {
					verdict = "oom"
				} else if c11CPU()-cpu0 > cpuLimit || time.Since(t0) > wallLimit {
					verdict = "hang"
				}
				busy := ""
				if verdict != "" {
					busy = c11Busy()
				}
				if verdict == "hang" && busy == "" && time.Since(t0) <= wallLimit {
					// CPU time was used but no goroutine is running zoekt code right now: not a loop in the
					// code under test (garbage collection, a starved machine).  Keep waiting.
					cpu0 = c11CPU()
					verdict = ""
				}
				if verdict == "hang" && busy == "" {
					verdict = "infra" // nothing happened for wallLimit: the parent gives up (inconclusive)
				}
				if verdict != "" {
					emit(c11Result{I: c.I, Proc: verdict, Phase: ph, Load: "unknown", Ops: []c11OpResult{}, Func: busy,
						Msg: fmt.Sprintf("cpu %v, memory +%d MB, wall %v", c11CPU()-cpu0, (c11Mem()-mem0)>>20, time.Since(t0).Round(time.Millisecond))})
					out.Close()
					os.Exit(3)
				}
			}
		}
		tick.Stop()
	}
}

// ---------------------------------------------------------------- parent

var c11FrameRe = regexp.MustCompile(`^(github\.com/sourcegraph/zoekt[^\s(]*(?:\([^)]*\))?[^\s(]*)\(`)

// first zoekt function of the goroutine that brought the process down
func c11Blame(stderr string) (msg, fn string) {
	lines := strings.Split(stderr, "\n")
	start := -1
	for i, l := range lines {
		if strings.HasPrefix(l, "panic:") || strings.HasPrefix(l, "fatal error:") || strings.HasPrefix(l, "unexpected fault address") || strings.HasPrefix(l, "runtime:") {
			if msg == "" {
				msg = l
			}
		}
		if start < 0 && strings.HasPrefix(l, "goroutine ") && strings.Contains(l, "[running]") {
			start = i
		}
	}
	if start >= 0 {
		for _, l := range lines[start+1:] {
			if l == "" {
				break
			}
			if m := c11FrameRe.FindStringSubmatch(l); m != nil {
				fn = strings.TrimPrefix(m[1], "github.com/sourcegraph/zoekt/")
				break
			}
		}
	}
	if len(msg) > 300 {
		msg = msg[:300]
	}
	return msg, fn
}

func c11ReadJournal(path string) (last int, lastPhase string, got map[int]*c11Result) {
	last, got = -1, map[int]*c11Result{}
	f, err := os.Open(path)
	if err != nil {
		return
	}
	defer f.Close()
	sc := bufio.NewScanner(f)
	sc.Buffer(make([]byte, 1<<20), 1<<28)
	for sc.Scan() {
		l := sc.Text()
		switch {
		case strings.HasPrefix(l, "B "):
			if n, err := strconv.Atoi(l[2:]); err == nil {
				last, lastPhase = n, "setup"
			}
		case strings.HasPrefix(l, "P "):
			f := strings.Fields(l)
			if len(f) == 3 {
				lastPhase = f[2]
			}
		case strings.HasPrefix(l, "R "):
			var r c11Result
			if json.Unmarshal([]byte(l[2:]), &r) == nil {
				got[r.I] = &r
			}
		}
	}
	return
}

func c11Tail(s string, n int) string {
	if len(s) > n {
		return s[len(s)-n:]
	}
	return s
}

func TestVerif_C11_Faults(t *testing.T) {
	log.SetOutput(io.Discard)
	tr := verifkit.Open(t)
	defer tr.Close()
	work := os.Getenv("VERIF_WORK")
	if work == "" {
		work = t.TempDir()
	}
	root, err := os.MkdirTemp(work, "c11base")
	if err != nil {
		t.Fatal(err)
	}
	bases, err := c11Build(root)
	if err != nil {
		t.Fatal(err)
	}

	// the model's layout must be the layout of the files
	var model struct {
		Layout  []c11M     `json:"layout"`
		Classes []c11Class `json:"classes"`
	}
	raw, err := os.ReadFile(os.Getenv("VERIF_IN"))
	if err != nil {
		t.Fatal(err)
	}
	if err := json.Unmarshal(raw, &model); err != nil {
		t.Fatal(err)
	}
	layouts := map[string]*c11Layout{}
	files := map[string][]byte{}
	sidecars := map[string][]byte{}
	for bn, vdir := range bases.victims {
		data, err := os.ReadFile(c11Shard(vdir))
		if err != nil {
			t.Fatal(err)
		}
		l, err := c11ParseTOC(data)
		if err != nil {
			t.Fatalf("cannot parse the table of contents of %s: %v", bn, err)
		}
		a, _ := json.Marshal(l.tags)
		b, _ := json.Marshal(model.Layout)
		if string(a) != string(b) {
			t.Fatalf("ShardLayout of the specification is not the layout of the shard file:\n spec %s\n file %s", b, a)
		}
		layouts[bn], files[bn] = l, data
		if sc, err := os.ReadFile(c11Shard(vdir) + ".meta"); err == nil {
			sidecars[bn] = sc
		}
	}

	// ---- cases
	var cases []c11Case
	skipped := 0
	rng := verifkit.Rng(11)
	classBases := []string{"simple", "compound"}
	for k, cl := range model.Classes {
		var bn string
		var data []byte
		var rg c11Range
		if cl.Target == "sidecar" {
			bn = []string{"simple+meta", "compound+meta"}[k%2]
			data = sidecars[bn]
			rg = c11Range{0, len(data)}
		} else {
			bn = classBases[rng.Intn(len(classBases))]
			if verifkit.Thorough() {
				bn = classBases[k%2]
			}
			data = files[bn]
			if cl.Part == "items" {
				// one case per item of the section: item k = [index[k], index[k+1]) resp. up to the end of the data
				ix, dt := layouts[bn].parts[cl.Section+"/index"], layouts[bn].parts[cl.Section+"/data"]
				n := (ix.b - ix.a) / 4
				for i := 0; i < n; i++ {
					a := int(binary.BigEndian.Uint32(data[ix.a+4*i:]))
					b := dt.b
					if i+1 < n {
						b = int(binary.BigEndian.Uint32(data[ix.a+4*i+4:]))
					}
					if a < dt.a || b > dt.b || b <= a {
						continue
					}
					cl2 := cl
					cl2.Pos = strings.TrimPrefix(cl.Pos, "each-")
					if c, ok := c11Concrete(cl2, data, c11Range{a, b}); ok {
						c.Pos, c.Base = cl.Pos, bn
						cases = append(cases, c)
					} else {
						skipped++
					}
				}
				continue
			}
			var ok bool
			rg, ok = layouts[bn].parts[cl.Section+"/"+cl.Part]
			if !ok {
				t.Fatalf("the file has no part %s/%s", cl.Section, cl.Part)
			}
			if rng.Intn(6) == 0 {
				bn += "+meta"
			}
		}
		c, ok := c11Concrete(cl, data, rg)
		if !ok {
			skipped++
			continue
		}
		c.Base = bn
		cases = append(cases, c)
		if cl.Target == "sidecar" { // both kinds of sidecar
			other := map[string]string{"simple+meta": "compound+meta", "compound+meta": "simple+meta"}[bn]
			if c2, ok := c11Concrete(cl, sidecars[other], c11Range{0, len(sidecars[other])}); ok {
				c2.Base = other
				cases = append(cases, c2)
			}
		}
	}
	step := verifkit.EnvInt("C11_TRUNC_STEP", verifkit.Pick(8, 1))
	for _, bn := range []string{"simple", "compound"} {
		for off := 0; off < len(files[bn]); off += step {
			cases = append(cases, c11Case{Family: "trunc", Base: bn, Target: "shard", Section: "file", Part: "file", Pos: "at", Mut: "truncate-here", Off: off, Trunc: off})
		}
	}
	for _, bn := range []string{"simple+meta", "compound+meta"} {
		for off := 0; off < len(sidecars[bn]); off += verifkit.Pick(8, 1) {
			cases = append(cases, c11Case{Family: "trunc", Base: bn, Target: "sidecar", Section: "sidecar", Part: "json", Pos: "at", Mut: "truncate-here", Off: off, Trunc: off})
		}
	}
	nrand := verifkit.EnvInt("C11_RANDOM", verifkit.Pick(250, 6000))
	rr := verifkit.Rng(12)
	for k := 0; k < nrand; k++ {
		bn := []string{"simple", "compound", "simple+meta", "compound+meta"}[rr.Intn(4)]
		c := c11Case{Family: "random", Base: bn, Target: "shard", Section: "file", Part: "file", Pos: "random", Mut: "garbage", Trunc: -1}
		data := files[bn]
		if strings.HasSuffix(bn, "+meta") && rr.Intn(3) == 0 {
			c.Target, c.Section, c.Part = "sidecar", "sidecar", "json"
			data = sidecars[bn]
		}
		switch rr.Intn(3) {
		case 0: // a run of random bytes
			off, n := rr.Intn(len(data)), 2+rr.Intn(31)
			c.Off = off
			for j := 0; j < n && off+j < len(data); j++ {
				c.Set = append(c.Set, [2]int{off + j, rr.Intn(256)})
			}
			c.Mut = "garbage-run"
		case 1: // scattered random bytes
			for j, n := 0, 1+rr.Intn(16); j < n; j++ {
				c.Set = append(c.Set, [2]int{rr.Intn(len(data)), rr.Intn(256)})
			}
			c.Off = c.Set[0][0]
			c.Mut = "garbage-scattered"
		default: // random bytes inside the table of contents / the metadata (most structure per byte)
			l := layouts[strings.TrimSuffix(bn, "+meta")]
			if c.Target == "sidecar" {
				c.Set = append(c.Set, [2]int{rr.Intn(len(data)), rr.Intn(256)})
			} else {
				rg := l.parts["toc/count"]
				for j, n := 0, 1+rr.Intn(4); j < n; j++ {
					c.Set = append(c.Set, [2]int{rg.a + rr.Intn(l.size-rg.a), rr.Intn(256)})
				}
			}
			c.Off = c.Set[0][0]
			c.Mut = "garbage-toc"
		}
		cases = append(cases, c)
	}
	if only := os.Getenv("C11_ONLY"); only != "" {
		var keep []c11Case
		for _, c := range cases {
			if c.Family == only {
				keep = append(keep, c)
			}
		}
		cases = keep
	}
	for i := range cases {
		cases[i].I = i
		if cases[i].Set == nil {
			cases[i].Set = [][2]int{}
		}
		cases[i].Where = "sidecar"
		if cases[i].Target == "shard" {
			cases[i].Where = layouts[strings.TrimSuffix(cases[i].Base, "+meta")].where(cases[i].Off)
		}
	}

	// ---- baseline: the healthy shards alone
	hdir := filepath.Dir(bases.healthy[0])
	ss, err := search.NewDirectorySearcher(hdir)
	if err != nil {
		t.Fatal(err)
	}
	baseOps := c11RunOps(ss, func(string) {})
	ss.Close()
	for _, o := range baseOps {
		if o.Outcome != "ok" {
			t.Fatalf("baseline operation %d: %s %s", o.Q, o.Outcome, o.Msg)
		}
	}
	tr.Emit(c11M{"ev": "baseline", "ops": baseOps})

	// ---- children
	job := c11Job{Healthy: bases.healthy, Victims: bases.victims, Cases: cases}
	jobPath := filepath.Join(root, "job.json")
	jb, _ := json.Marshal(job)
	if err := os.WriteFile(jobPath, jb, 0o644); err != nil {
		t.Fatal(err)
	}
	nw := verifkit.EnvInt("C11_WORKERS", 8)
	results := make([]*c11Result, len(cases))
	blame := make([][2]string, len(cases))
	var mu sync.Mutex
	var wg sync.WaitGroup
	var firstErr error
	children := 0
	for wk := 0; wk < nw; wk++ {
		wg.Add(1)
		go func(wk int) {
			defer wg.Done()
			from := wk
			for run := 0; from < len(cases); run++ {
				outPath := fmt.Sprintf("%s/child_%d_%d.out", root, wk, run)
				cmd := exec.Command(os.Args[0], "-test.run", "^TestVerif_C11_Child$", "-test.count=1", "-test.timeout", "0")
				cmd.Env = append(os.Environ(), "C11_CHILD_JOB="+jobPath, "C11_CHILD_OUT="+outPath,
					"C11_CHILD_FROM="+strconv.Itoa(from), "C11_CHILD_STRIDE="+strconv.Itoa(nw), "GOMEMLIMIT=1GiB", "GOMAXPROCS=4", "GOTRACEBACK=all")
				var stderr bytes.Buffer
				cmd.Stdout = &stderr
				cmd.Stderr = &stderr
				runErr := cmd.Run()
				last, lastPhase, got := c11ReadJournal(outPath)
				os.Remove(outPath)
				mu.Lock()
				children++
				for i, r := range got {
					results[i] = r
				}
				mu.Unlock()
				if last < 0 {
					mu.Lock()
					if firstErr == nil {
						firstErr = fmt.Errorf("child made no progress (from %d): %v\n%s", from, runErr, c11Tail(stderr.String(), 2000))
					}
					mu.Unlock()
					return
				}
				if _, ok := got[last]; !ok {
					// the process died while working on case `last`
					se := stderr.String()
					if lastPhase == "setup" || lastPhase == "done" {
						mu.Lock()
						if firstErr == nil {
							firstErr = fmt.Errorf("child died outside the code under test (case %d, phase %s): %v\n%s", last, lastPhase, runErr, c11Tail(se, 2000))
						}
						mu.Unlock()
						return
					}
					proc := "died"
					if strings.Contains(se, "out of memory") || strings.Contains(se, "cannot allocate memory") {
						proc = "oom"
					}
					msg, fn := c11Blame(se)
					if msg == "" {
						msg = fmt.Sprintf("%v: %s", runErr, c11Tail(se, 300))
					}
					mu.Lock()
					results[last] = &c11Result{I: last, Proc: proc, Phase: lastPhase, Load: "unknown", Ops: []c11OpResult{}, Msg: msg}
					blame[last] = [2]string{fn, c11Tail(se, 40000)}
					mu.Unlock()
				}
				from = last + nw
			}
		}(wk)
	}
	wg.Wait()
	if firstErr != nil {
		t.Fatal(firstErr)
	}
	for i := range cases {
		c, r := &cases[i], results[i]
		if r == nil {
			t.Fatalf("no result for case %d", i)
		}
		if r.Ops == nil {
			r.Ops = []c11OpResult{}
		}
		if r.Proc == "infra" {
			t.Fatalf("case %d: %s", i, r.Msg)
		}
		phase := r.Phase
		if i := strings.IndexByte(phase, ':'); i >= 0 {
			phase = phase[:i] // search:3 -> search
		}
		tr.Emit(c11M{"ev": "fault", "i": c.I, "family": c.Family, "base": c.Base, "target": c.Target, "section": c.Section, "part": c.Part,
			"pos": c.Pos, "mut": c.Mut, "off": c.Off, "where": c.Where, "nset": len(c.Set), "trunc": c.Trunc, "set": c.Set,
			"proc": r.Proc, "phase": phase, "phasefull": r.Phase, "load": r.Load, "ops": r.Ops, "msg": r.Msg, "func": blame[i][0] + r.Func, "stderr": blame[i][1]})
	}
	t.Logf("c11: %d cases (%d fault classes do not exist in the files), %d child processes", len(cases), skipped, children)
}
