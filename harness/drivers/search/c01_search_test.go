//go:build verif

package search_test

import (
	"context"
	"fmt"
	"os"
	"path/filepath"
	"strings"
	"testing"

	"github.com/grafana/regexp"

	"github.com/sourcegraph/zoekt"
	"github.com/sourcegraph/zoekt/index"
	"github.com/sourcegraph/zoekt/internal/verifkit"
	"github.com/sourcegraph/zoekt/internal/verifkit/corpus"
	"github.com/sourcegraph/zoekt/query"
	"github.com/sourcegraph/zoekt/search"
)

// loaded corpus: one searcher per shard plus a directory searcher over all of them.
type c01Loaded struct {
	c      *corpus.Corpus
	idx    map[string][]int
	shards map[int]zoekt.Searcher
	dir    zoekt.Streamer
	tmp    string
}

func c01Load(t testing.TB, c *corpus.Corpus, withDir bool) *c01Loaded {
	tmp, err := os.MkdirTemp(os.Getenv("VERIF_WORK"), "corpus")
	if err != nil {
		t.Fatal(err)
	}
	paths, err := c.Materialise(tmp)
	if err != nil {
		t.Fatalf("materialise: %v", err)
	}
	l := &c01Loaded{c: c, idx: c.Index(), shards: map[int]zoekt.Searcher{}, tmp: tmp}
	for sh, p := range paths {
		f, err := os.Open(p)
		if err != nil {
			t.Fatal(err)
		}
		inf, err := index.NewIndexFile(f)
		if err != nil {
			t.Fatal(err)
		}
		s, err := index.NewSearcher(inf)
		if err != nil {
			t.Fatalf("NewSearcher(%s): %v", filepath.Base(p), err)
		}
		l.shards[sh] = s
	}
	if withDir {
		d, err := search.NewDirectorySearcher(tmp)
		if err != nil {
			t.Fatal(err)
		}
		l.dir = d
	}
	return l
}

func (l *c01Loaded) Close() {
	for _, s := range l.shards {
		s.Close()
	}
	if l.dir != nil {
		l.dir.Close()
	}
	os.RemoveAll(l.tmp)
}

// c01Search runs one search and emits the event; a panic or error is recorded as outcome.
func c01Search(tr *verifkit.Trace, l *c01Loaded, kind string, shard int, q *corpus.Q, opts *zoekt.SearchOptions, detail int, extra verifkit.M) {
	var s zoekt.Searcher = l.dir
	if kind == "shard" {
		s = l.shards[shard]
	}
	var res *zoekt.SearchResult
	var err error
	var zq query.Q
	p := verifkit.Catch(func() {
		zq = q.Zoekt()
		res, err = s.Search(context.Background(), zq, opts)
	})
	mode := "line"
	if opts.ChunkMatches {
		mode = "chunk"
	}
	ev := verifkit.M{"ev": "search", "cid": l.c.ID, "kind": kind, "shard": shard, "q": q.JSON(), "mode": mode,
		"ctx": opts.NumContextLines, "outcome": "ok", "files": []verifkit.M{}, "crashes": 0, "detail": detail,
		"qs": ""}
	if zq != nil {
		ev["qs"] = zq.String()
	}
	for k, v := range extra {
		ev[k] = v
	}
	switch {
	case p != nil:
		ev["outcome"] = "panic"
		ev["qs"] = fmt.Sprintf("%v: %v", ev["qs"], p)
	case err != nil:
		ev["outcome"] = "error"
		ev["qs"] = fmt.Sprintf("%v: %v", ev["qs"], err)
	default:
		ev["files"] = l.c.Files(l.idx, res, detail)
		ev["crashes"] = res.Stats.Crashes
	}
	tr.Emit(ev)
}

func regexpQuote(s string) string { return regexp.QuoteMeta(s) }

func TestVerif_C01_Random(t *testing.T) {
	tr := verifkit.Open(t)
	defer tr.Close()
	tr.Emit(corpus.FoldEvent())
	ncorp := verifkit.EnvInt("VERIF_CORPORA", verifkit.Pick(30, 300))
	nq := verifkit.EnvInt("VERIF_QUERIES", verifkit.Pick(12, 20))
	detail := verifkit.EnvInt("VERIF_DETAIL", corpus.DetailFiles)
	for ci := 0; ci < ncorp; ci++ {
		rng := verifkit.Rng(int64(ci))
		p := corpus.Profile{MaxRepos: 3, MaxDocs: 6, MaxLen: 40, Compound: true, Tombstones: true, Binary: true, Symbols: true}
		if verifkit.Thorough() && ci%5 == 0 {
			p.Long = true
		}
		c := corpus.Gen(rng, ci+1, p)
		l := c01Load(t, c, true)
		tr.Emit(c.Event())
		g := &corpus.QGen{Rng: rng, C: c}
		// targeted atoms that are rare in random trees: symbol atoms whose text ends exactly at (or
		// one rune beyond) a section boundary, exact/substring branch atoms, file tombstoned names
		for k := 0; k < 6; k++ {
			pat := c.PickSymbolPattern(rng)
			var e *corpus.Q
			if k%3 == 2 {
				e = &corpus.Q{T: "regex", Pat: "^" + regexpQuote(pat) + "$", CT: true, CS: true}
			} else {
				e = &corpus.Q{T: "substr", Pat: pat, CT: true, CS: rng.Intn(2) == 0}
			}
			opts := &zoekt.SearchOptions{ChunkMatches: rng.Intn(2) == 0}
			sh := c.Repos[rng.Intn(len(c.Repos))].Shard
			c01Search(tr, l, "shard", sh, &corpus.Q{T: "symbol", Sub: []*corpus.Q{e}}, opts, detail, nil)
		}
		// the markers inside long runs of 4-byte runes (their byte offsets lie far from the last rune-offset sample)
		for di := range c.Docs {
			if !strings.HasPrefix(c.Docs[di].Effective(), "😀😀") {
				continue
			}
			for j := 0; j < 8; j++ {
				e := &corpus.Q{T: "substr", Pat: corpus.EmojiMarker(j), CT: true, CS: j%2 == 0}
				c01Search(tr, l, "shard", c.Repos[c.Docs[di].Repo].Shard, e, &zoekt.SearchOptions{ChunkMatches: j%3 == 0}, detail, nil)
			}
		}
		// matches at the very end / start of a content or name, pattern spelled with other members of
		// the fold orbits
		for k := 0; k < 4; k++ {
			fn := k == 3
			e := &corpus.Q{T: "substr", Pat: c.PickEdgePattern(rng, fn), CT: !fn, FN: fn, CS: false}
			opts := &zoekt.SearchOptions{ChunkMatches: rng.Intn(2) == 0}
			sh := c.Repos[rng.Intn(len(c.Repos))].Shard
			c01Search(tr, l, "shard", sh, e, opts, detail, nil)
		}
		for k := 0; k < nq; k++ {
			opts := &zoekt.SearchOptions{ChunkMatches: rng.Intn(2) == 0, NumContextLines: []int{0, 0, 1, 2, 5}[rng.Intn(5)]}
			if rng.Intn(2) == 0 {
				g.Dir = true
				c01Search(tr, l, "dir", 0, g.Tree(3), opts, detail, nil)
			} else {
				g.Dir = false
				sh := c.Repos[rng.Intn(len(c.Repos))].Shard
				c01Search(tr, l, "shard", sh, g.Tree(3), opts, detail, nil)
			}
		}
		l.Close()
	}
}
