//go:build verif

package search_test

import (
	"fmt"
	"os"
	"path/filepath"
	"testing"

	"github.com/sourcegraph/zoekt"
	"github.com/sourcegraph/zoekt/index"
	"github.com/sourcegraph/zoekt/internal/verifkit"
	"github.com/sourcegraph/zoekt/internal/verifkit/corpus"
	"github.com/sourcegraph/zoekt/search"
)

// C10: one corpus, many ways to build the index (shard size limit, parallelism, insertion order,
// builder reuse, compound or not); every search must satisfy the same specification, which does
// not mention the build configuration.

type c10Config struct {
	ShardMax    int
	Parallelism int
	Permute     bool
	Compound    bool
}

func (c c10Config) String() string {
	return fmt.Sprintf("shardmax=%d par=%d permute=%v compound=%v", c.ShardMax, c.Parallelism, c.Permute, c.Compound)
}

func c10Build(t testing.TB, c *corpus.Corpus, cfg c10Config, seed int64) (string, int) {
	dir, err := os.MkdirTemp(os.Getenv("VERIF_WORK"), "c10")
	if err != nil {
		t.Fatal(err)
	}
	rng := verifkit.Rng(seed)
	for ri := range c.Repos {
		var order []int
		for di := range c.Docs {
			if c.Docs[di].Repo == ri {
				order = append(order, di)
			}
		}
		if cfg.Permute {
			rng.Shuffle(len(order), func(i, j int) { order[i], order[j] = order[j], order[i] })
		}
		opts := index.Options{IndexDir: dir, ShardMax: cfg.ShardMax, Parallelism: cfg.Parallelism, DisableCTags: true}
		opts.RepositoryDescription = *c.ZoektRepo(ri)
		b, err := index.NewBuilder(opts)
		if err != nil {
			t.Fatal(err)
		}
		for _, di := range order {
			if err := b.Add(c.IndexDoc(&c.Docs[di])); err != nil {
				t.Fatalf("add: %v", err)
			}
		}
		if err := b.Finish(); err != nil {
			t.Fatalf("finish: %v", err)
		}
	}
	shards, _ := filepath.Glob(filepath.Join(dir, "*.zoekt"))
	n := len(shards)
	if cfg.Compound && len(shards) >= 2 {
		var files []index.IndexFile
		for _, p := range shards {
			f, err := os.Open(p)
			if err != nil {
				t.Fatal(err)
			}
			inf, err := index.NewIndexFile(f)
			if err != nil {
				t.Fatal(err)
			}
			files = append(files, inf)
		}
		tmpName, dstName, err := index.Merge(dir, files...)
		for _, f := range files {
			f.Close()
		}
		if err != nil {
			t.Fatalf("merge: %v", err)
		}
		for _, p := range shards {
			os.Remove(p)
		}
		if err := os.Rename(tmpName, dstName); err != nil {
			t.Fatal(err)
		}
	}
	return dir, n
}

func TestVerif_C10_Builds(t *testing.T) {
	tr := verifkit.Open(t)
	defer tr.Close()
	tr.Emit(corpus.FoldEvent())
	ncorp := verifkit.EnvInt("VERIF_CORPORA", verifkit.Pick(5, 40))
	nq := verifkit.EnvInt("VERIF_QUERIES", verifkit.Pick(10, 16))
	for ci := 0; ci < ncorp; ci++ {
		rng := verifkit.Rng(int64(12000 + ci))
		p := corpus.Profile{MaxRepos: 2, MaxDocs: 8, MaxLen: 36, Symbols: true, Binary: true}
		c := corpus.Gen(rng, ci+1, p)
		for i := range c.Docs {
			c.Docs[i].ViaBuilder = true
			if rng.Intn(10) == 0 {
				c.Docs[i].Content = []string{"a", "ab", "é", ""}[rng.Intn(4)]
				c.Docs[i].Syms, c.Docs[i].SymKinds = nil, nil
			}
		}
		// the same non-ASCII trigrams in several documents at different (non-zero) offsets: with a
		// small ShardMax they land in different shards written by one reused builder
		for i := range c.Docs {
			if c.Docs[i].ViaBuilder && len(c.Docs[i].Content) >= 3 && rng.Intn(3) != 0 && c.Docs[i].Effective() == c.Docs[i].Content {
				rs := []rune(c.Docs[i].Content)
				at := rng.Intn(len(rs) + 1)
				c.Docs[i].Content = string(rs[:at]) + []string{"é中ß😀", "日本語", "中ß😀é"}[rng.Intn(3)] + string(rs[at:])
				c.Docs[i].Syms, c.Docs[i].SymKinds = nil, nil
			}
		}
		c.DedupDocs()
		// non-ASCII trigrams only in some documents (map-backed postings kept across builder resets)
		tr.Emit(c.Event())
		g := &corpus.QGen{Rng: rng, C: c, Dir: true}
		var qs []*corpus.Q
		for k := 0; k < nq; k++ {
			switch k % 3 {
			case 0:
				qs = append(qs, &corpus.Q{T: "substr", Pat: c.PickPattern(rng, false), CT: true, CS: rng.Intn(2) == 0})
			case 1:
				qs = append(qs, &corpus.Q{T: "regex", Pat: g.RegexFor(false), CT: true, CS: rng.Intn(2) == 0})
			default:
				qs = append(qs, g.Tree(2))
			}
		}
		for _, pat := range []string{"é中ß", "中ß😀", "日本語", "本語", "ß😀é"} {
			qs = append(qs, &corpus.Q{T: "substr", Pat: pat, CT: true, CS: rng.Intn(2) == 0})
		}
		qs = append(qs, &corpus.Q{T: "regex", Pat: "é中ß.|日本.", CT: true, CS: true})
		configs := []c10Config{
			{ShardMax: 1, Parallelism: 1},
			{ShardMax: 1, Parallelism: 4, Permute: true},
			{ShardMax: 60, Parallelism: 2, Permute: true},
			{ShardMax: 150, Parallelism: 16},
			{ShardMax: 1 << 20, Parallelism: 1, Permute: true},
			{ShardMax: 60, Parallelism: 4, Compound: true},
		}
		if !verifkit.Thorough() {
			// quick: the two extremes, one middle, one compound
			configs = []c10Config{configs[0], configs[2], configs[4], configs[5]}
		}
		for k, cfg := range configs {
			dir, nshards := c10Build(t, c, cfg, int64(ci*100+k))
			d, err := search.NewDirectorySearcher(dir)
			if err != nil {
				t.Fatal(err)
			}
			l := &c01Loaded{c: c, idx: c.Index(), dir: d, tmp: dir}
			for _, q := range qs {
				opts := &zoekt.SearchOptions{ChunkMatches: rng.Intn(2) == 0, NumContextLines: rng.Intn(3)}
				c01Search(tr, l, "dir", 0, q, opts, corpus.DetailRanges, verifkit.M{"config": cfg.String(), "nshards": nshards})
			}
			l.Close()
		}
	}
}
