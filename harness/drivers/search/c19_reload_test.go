//go:build verif

package search

// C19: shard reloads under concurrent search.
//
//   TestVerif_C19_Replay  R: scripts (TLC, mode "macro" of spec/sys/Reload.tla, and seeded walks)
//       executed one step at a time on the real DirectoryWatcher.scan / loader / shardedSearcher:
//       the scan runs in its own goroutine and is held by a gated shardLoader before drop and
//       before load, a search is held in its first Send (the statement after getLoaded()).
//       After every step the projection of the real state is logged for Trace_Reload.tla.
//   TestVerif_C19_Stress  V: one mutator (seeded directory history), one scanner (scan() in a
//       loop), 4..16 searchers/listers, a GC goroutine; events carry sequence intervals.
//
// Shard <repo>_v<fmt>.00000.zoekt, content version n: document v.txt "VERDOC VERSION n REPO r FMT f
// END" and 1 + n%3 documents "VERDOC EXTRA n i END".  mtime = c19Base + clk seconds (clk = number
// of the directory change).  Sidecar .meta: the shard's own metadata with Tombstone and
// RawConfig["side"] = clk.

import (
	"context"
	"encoding/json"
	"fmt"
	"os"
	"path/filepath"
	"reflect"
	"runtime"
	"sort"
	"strconv"
	"strings"
	"sync"
	"sync/atomic"
	"testing"
	"time"
	"unsafe"

	"github.com/sourcegraph/zoekt"
	"github.com/sourcegraph/zoekt/index"
	"github.com/sourcegraph/zoekt/internal/verifkit"
	"github.com/sourcegraph/zoekt/query"
)

const c19Base = 1700000000
const c19Wait = 120 * time.Second

type c19M = verifkit.M

// ---------------------------------------------------------------- trace (unbuffered: survives a crash)

type c19Trace struct {
	mu sync.Mutex
	f  *os.File
	n  int
}

func c19Open(t testing.TB) *c19Trace {
	p := os.Getenv("VERIF_OUT")
	if p == "" {
		t.Skip("VERIF_OUT not set: verification drivers only run under /verif/bin/check")
	}
	f, err := os.Create(p)
	if err != nil {
		t.Fatal(err)
	}
	return &c19Trace{f: f}
}

func (tr *c19Trace) Emit(ev c19M) {
	b, err := json.Marshal(ev)
	if err != nil {
		panic(err)
	}
	b = append(b, '\n')
	tr.mu.Lock()
	tr.f.Write(b)
	tr.n++
	tr.mu.Unlock()
}

// ---------------------------------------------------------------- environment

type c19Key struct {
	Repo string
	Fmt  int
}

type c19Ver struct {
	Repo string
	Fmt  int
	Ver  int
}

type c19Inst struct {
	Repo   string
	Fmt    int
	Ver    int // -1: mapping not found
	Side   string
	Smt    int
	Addr   uintptr
	Ino    uint64
	Mapped bool
}

func (i c19Inst) view() c19M {
	return c19M{"r": i.Repo, "f": i.Fmt, "ver": i.Ver, "side": i.Side, "smt": i.Smt}
}

var (
	c19CacheMu sync.Mutex
	c19Cache   = map[c19Ver][]byte{}
	c19RepoIDs = map[string]uint32{"a": 1, "b": 2, "c": 3}
)

func c19Extras(ver int) int { return 1 + ver%3 }

// c19ShardBytes: the bytes of (repo, content version), built once with the real ShardBuilder; kept in
// the pool directory VERIF_C19_POOL so that the test processes of one check share them (a build
// preallocates for a 100 MB shard and takes 50..1000 ms).
func c19ShardBytes(t testing.TB, v c19Ver) []byte {
	v.Fmt = 0
	c19CacheMu.Lock()
	b, ok := c19Cache[v]
	c19CacheMu.Unlock()
	if ok {
		return b
	}
	pool := os.Getenv("VERIF_C19_POOL")
	pf := filepath.Join(pool, fmt.Sprintf("%s.%d.shard", v.Repo, v.Ver))
	if pool != "" {
		if b, err := os.ReadFile(pf); err == nil {
			c19CacheMu.Lock()
			c19Cache[v] = b
			c19CacheMu.Unlock()
			return b
		}
	}
	sb, err := index.NewShardBuilder(&zoekt.Repository{Name: v.Repo, ID: c19RepoIDs[v.Repo],
		RawConfig: map[string]string{"side": "0"}, Branches: []zoekt.RepositoryBranch{{Name: "HEAD", Version: fmt.Sprint(v.Ver)}}})
	if err != nil {
		t.Fatal(err)
	}
	add := func(name, content string) {
		if err := sb.Add(index.Document{Name: name, Content: []byte(content), Branches: []string{"HEAD"}}); err != nil {
			t.Fatal(err)
		}
	}
	add("v.txt", fmt.Sprintf("VERDOC VERSION %d REPO %s END", v.Ver, v.Repo))
	for i := 0; i < c19Extras(v.Ver); i++ {
		add(fmt.Sprintf("d%d.txt", i), fmt.Sprintf("VERDOC EXTRA %d %d END", v.Ver, i))
	}
	tmp, err := os.CreateTemp(os.Getenv("VERIF_WORK"), "c19build")
	if err != nil {
		t.Fatal(err)
	}
	defer os.Remove(tmp.Name())
	if err := sb.Write(tmp); err != nil {
		t.Fatal(err)
	}
	tmp.Close()
	b, err = os.ReadFile(tmp.Name())
	if err != nil {
		t.Fatal(err)
	}
	if pool != "" {
		os.WriteFile(pf+".tmp", b, 0o644)
		os.Rename(pf+".tmp", pf)
	}
	c19CacheMu.Lock()
	c19Cache[v] = b
	c19CacheMu.Unlock()
	return b
}

// TestVerif_C19_Factory fills the pool: versions 1..VERIF_C19_POOLN of every repository, in parallel.
func TestVerif_C19_Factory(t *testing.T) {
	if os.Getenv("VERIF_C19_POOL") == "" {
		t.Skip("VERIF_C19_POOL not set")
	}
	n := verifkit.EnvInt("VERIF_C19_POOLN", 24)
	sem := make(chan struct{}, 6)
	var wg sync.WaitGroup
	for _, r := range []string{"a", "b", "c"} {
		for v := 1; v <= n; v++ {
			wg.Add(1)
			sem <- struct{}{}
			go func(r string, v int) {
				defer wg.Done()
				c19ShardBytes(t, c19Ver{Repo: r, Ver: v})
				<-sem
			}(r, v)
		}
	}
	wg.Wait()
}

type c19Gate struct {
	real  *loader
	gated bool
	at    chan string
	rel   chan struct{}
	ident func(keys []string) map[string][2]uint64 // identity of what is loaded for the keys
	obs   func(kind string, keys []string, before map[string][2]uint64, pre, post int64)
	seq   *atomic.Int64
}

func (g *c19Gate) call(kind string, keys []string, f func(...string)) {
	if g.gated {
		g.at <- kind
		<-g.rel
	}
	var pre int64
	var before map[string][2]uint64
	if g.obs != nil {
		before = g.ident(keys)
		pre = g.seq.Add(1)
	}
	f(keys...)
	if g.obs != nil {
		g.obs(kind, keys, before, pre, g.seq.Add(1))
	}
}
func (g *c19Gate) load(keys ...string) { g.call("load", keys, g.real.load) }
func (g *c19Gate) drop(keys ...string) { g.call("drop", keys, g.real.drop) }

// c19Reloader: the single-call form of the proposed patch for the drop-before-load gap.  scan()
// of a patched tree uses it when the loader has it; the gate forwards it (both gates first, then
// the whole real call) so that the patch is exercised and not bypassed by the harness.
type c19Reloader interface {
	reload(load, drop []string)
}

func (g *c19Gate) reload(load, drop []string) {
	rl, ok := any(g.real).(c19Reloader)
	if !ok {
		g.drop(drop...)
		g.load(load...)
		return
	}
	g.call("drop", nil, func(...string) {})
	all := append(append([]string{}, drop...), load...)
	g.call("load", all, func(...string) { rl.reload(load, drop) })
}

type c19Env struct {
	t     testing.TB
	dir   string
	vault string
	ss    *shardedSearcher
	dw    *DirectoryWatcher
	gate  *c19Gate
	mu    sync.Mutex
	inos  map[uint64]c19Ver
	reg   map[[2]uint64]c19Inst // (addr, inode) -> instance, every instance ever observed
	nfile int
}

func c19NewEnv(t testing.TB, base string, gated bool) *c19Env {
	dir, err := os.MkdirTemp(base, "d")
	if err != nil {
		t.Fatal(err)
	}
	e := &c19Env{t: t, dir: filepath.Join(dir, "index"), vault: filepath.Join(dir, "vault"),
		inos: map[uint64]c19Ver{}, reg: map[[2]uint64]c19Inst{}}
	os.Mkdir(e.dir, 0o755)
	os.Mkdir(e.vault, 0o755)
	e.ss = newShardedSearcher(32)
	e.ss.markReady()
	e.gate = &c19Gate{real: &loader{ss: e.ss}, gated: gated, at: make(chan string), rel: make(chan struct{})}
	e.dw = &DirectoryWatcher{dir: e.dir, loader: e.gate}
	// timestamps is made by reflection: its value type is an implementation detail of the change detector
	tsf := reflect.ValueOf(e.dw).Elem().FieldByName("timestamps")
	reflect.NewAt(tsf.Type(), unsafe.Pointer(tsf.UnsafeAddr())).Elem().Set(reflect.MakeMap(tsf.Type()))
	return e
}

func (e *c19Env) destroy() {
	e.ss.Close()
	os.RemoveAll(filepath.Dir(e.dir))
}

func (e *c19Env) path(k c19Key) string {
	return filepath.Join(e.dir, fmt.Sprintf("%s_v%d.00000.zoekt", k.Repo, k.Fmt))
}

func (e *c19Env) keyOf(path string) (c19Key, bool) {
	b := filepath.Base(path)
	i := strings.Index(b, "_v")
	j := strings.Index(b, ".")
	if i < 0 || j < i {
		return c19Key{}, false
	}
	n, err := strconv.Atoi(b[i+2 : j])
	if err != nil {
		return c19Key{}, false
	}
	return c19Key{b[:i], n}, true
}

func c19Time(clk int) time.Time { return time.Unix(c19Base+int64(clk), 0) }

func c19Ino(t testing.TB, p string) uint64 {
	fi, err := os.Lstat(p)
	if err != nil {
		t.Fatal(err)
	}
	return reflect.ValueOf(fi.Sys()).Elem().FieldByName("Ino").Uint()
}

// write creates or replaces (rename over) the shard file.
func (e *c19Env) write(k c19Key, ver, clk int) {
	data := c19ShardBytes(e.t, c19Ver{k.Repo, k.Fmt, ver})
	e.nfile++
	tmp := filepath.Join(e.dir, fmt.Sprintf("part%d.tmp", e.nfile))
	if err := os.WriteFile(tmp, data, 0o644); err != nil {
		e.t.Fatal(err)
	}
	if err := os.Chtimes(tmp, c19Time(clk), c19Time(clk)); err != nil {
		e.t.Fatal(err)
	}
	ino := c19Ino(e.t, tmp)
	e.mu.Lock()
	e.inos[ino] = c19Ver{k.Repo, k.Fmt, ver}
	e.mu.Unlock()
	// the inode stays allocated (never reused) while the environment lives
	if err := os.Link(tmp, filepath.Join(e.vault, fmt.Sprint(ino))); err != nil {
		e.t.Fatal(err)
	}
	if err := os.Rename(tmp, e.path(k)); err != nil {
		e.t.Fatal(err)
	}
}

func (e *c19Env) remove(k c19Key) {
	if err := os.Remove(e.path(k)); err != nil {
		e.t.Fatal(err)
	}
	os.Remove(e.path(k) + ".meta")
}

// sidecar writes (rename over) or removes <shard>.meta.
func (e *c19Env) sidecar(k c19Key, side string, clk int) {
	dst := e.path(k) + ".meta"
	if side == "none" {
		if err := os.Remove(dst); err != nil {
			e.t.Fatal(err)
		}
		return
	}
	repos, _, err := index.ReadMetadataPath(e.path(k))
	if err != nil || len(repos) != 1 {
		e.t.Fatalf("ReadMetadataPath: %v", err)
	}
	r := repos[0]
	r.Tombstone = side == "tomb"
	r.RawConfig = map[string]string{"side": fmt.Sprint(clk)}
	b, err := json.Marshal(r)
	if err != nil {
		e.t.Fatal(err)
	}
	e.nfile++
	tmp := filepath.Join(e.dir, fmt.Sprintf("meta%d.tmp", e.nfile))
	if err := os.WriteFile(tmp, b, 0o644); err != nil {
		e.t.Fatal(err)
	}
	os.Chtimes(tmp, c19Time(clk), c19Time(clk))
	if err := os.Rename(tmp, dst); err != nil {
		e.t.Fatal(err)
	}
}

// ---------------------------------------------------------------- projection of the real state

// c19Maps: start address -> inode of every file mapping of this process.
func c19Maps(t testing.TB) map[uint64]uint64 {
	b, err := os.ReadFile("/proc/self/maps")
	if err != nil {
		t.Fatal(err)
	}
	res := map[uint64]uint64{}
	for _, ln := range strings.Split(string(b), "\n") {
		f := strings.Fields(ln)
		if len(f) < 5 || f[4] == "0" {
			continue
		}
		dash := strings.IndexByte(f[0], '-')
		a, err1 := strconv.ParseUint(f[0][:dash], 16, 64)
		ino, err2 := strconv.ParseUint(f[4], 10, 64)
		if err1 == nil && err2 == nil {
			res[a] = ino
		}
	}
	return res
}

// c19Project reads, without touching the mapping, what a loaded shard is: address of its mapping
// (-> inode -> version written by the driver), tombstone and sidecar generation of its metadata.
func (e *c19Env) project(rs *rankedShard, maps map[uint64]uint64) c19Inst {
	v := reflect.ValueOf(rs.Searcher).Elem() // index.indexData
	file := v.FieldByName("file").Elem().Elem()
	data := file.FieldByName("data")
	in := c19Inst{Addr: data.Pointer(), Ver: -1, Side: "none"}
	md := v.FieldByName("repoMetaData")
	if md.Len() == 1 {
		r := md.Index(0)
		in.Repo = r.FieldByName("Name").String()
		if sv := r.FieldByName("RawConfig").MapIndex(reflect.ValueOf("side")); sv.IsValid() {
			in.Smt, _ = strconv.Atoi(sv.String())
		}
		if r.FieldByName("Tombstone").Bool() {
			in.Side = "tomb"
		} else if in.Smt != 0 {
			in.Side = "live"
		}
	}
	if ino, ok := maps[uint64(in.Addr)]; ok {
		in.Ino, in.Mapped = ino, true
		e.mu.Lock()
		if w, ok := e.inos[ino]; ok {
			in.Ver, in.Fmt = w.Ver, w.Fmt
			if in.Repo == "" {
				in.Repo = w.Repo
			}
		}
		e.reg[[2]uint64{uint64(in.Addr), ino}] = in
		e.mu.Unlock()
	}
	return in
}

func c19Views(xs []c19Inst) []c19M {
	sort.Slice(xs, func(i, j int) bool {
		if xs[i].Repo != xs[j].Repo {
			return xs[i].Repo < xs[j].Repo
		}
		if xs[i].Fmt != xs[j].Fmt {
			return xs[i].Fmt < xs[j].Fmt
		}
		return xs[i].Ver < xs[j].Ver
	})
	res := []c19M{}
	for _, x := range xs {
		res = append(res, x.view())
	}
	return res
}

// loaded: ss.shards (under mu) with the file name of each key; ranked: the slice searches load.
func (e *c19Env) state() (loaded, ranked []c19M, keyMismatch int) {
	maps := c19Maps(e.t)
	var l, r []c19Inst
	e.ss.mu.Lock()
	for key, rs := range e.ss.shards {
		in := e.project(rs, maps)
		if k, ok := e.keyOf(key); !ok || k.Repo != in.Repo || k.Fmt != in.Fmt {
			keyMismatch++
		}
		l = append(l, in)
	}
	e.ss.mu.Unlock()
	for _, rs := range e.ss.getLoaded().shards {
		r = append(r, e.project(rs, maps))
	}
	return c19Views(l), c19Views(r), keyMismatch
}

// unmapped: every instance ever observed whose mapping is gone (closed).
func (e *c19Env) unmapped() []c19M {
	maps := c19Maps(e.t)
	var xs []c19Inst
	e.mu.Lock()
	for k, in := range e.reg {
		if ino, ok := maps[k[0]]; !ok || ino != k[1] {
			xs = append(xs, in)
		}
	}
	e.mu.Unlock()
	return c19Views(xs)
}

// ---------------------------------------------------------------- searching

type c19Hit struct {
	repo, content string
}

type c19Sender struct {
	at, rel chan struct{}
	first   bool
	mu      sync.Mutex
	hits    []c19Hit
	crashes int
}

func (s *c19Sender) Send(r *zoekt.SearchResult) {
	if !s.first {
		s.first = true
		if s.at != nil {
			s.at <- struct{}{}
			<-s.rel
		}
	}
	s.mu.Lock()
	s.crashes += r.Stats.Crashes
	for _, f := range r.Files {
		s.hits = append(s.hits, c19Hit{f.Repository, string(f.Content)})
	}
	s.mu.Unlock()
}

var c19Query = &query.Substring{Pattern: "VERDOC", Content: true}

// c19Result: per repository the versions seen, the number of VERSION documents and of all documents.
func c19Result(hits []c19Hit) (res []c19M, bad int) {
	type acc struct {
		vers  map[int]bool
		docs  int
		main  int
		names map[string]bool
	}
	m := map[string]*acc{}
	for _, h := range hits {
		a := m[h.repo]
		if a == nil {
			a = &acc{vers: map[int]bool{}, names: map[string]bool{}}
			m[h.repo] = a
		}
		var ver, i int
		var r string
		if n, _ := fmt.Sscanf(h.content, "VERDOC VERSION %d REPO %s END", &ver, &r); n == 2 && r == h.repo {
			a.main++
		} else if n, _ := fmt.Sscanf(h.content, "VERDOC EXTRA %d %d END", &ver, &i); n != 2 || i >= c19Extras(ver) {
			bad++
			continue
		}
		if a.names[h.content] {
			bad++ // the same document twice
			continue
		}
		a.names[h.content] = true
		a.vers[ver] = true
		a.docs++
	}
	keys := func(s map[int]bool) []int {
		r := []int{}
		for k := range s {
			r = append(r, k)
		}
		sort.Ints(r)
		return r
	}
	var names []string
	for r := range m {
		names = append(names, r)
	}
	sort.Strings(names)
	res = []c19M{}
	for _, r := range names {
		res = append(res, c19M{"r": r, "vers": keys(m[r].vers), "main": m[r].main, "docs": m[r].docs})
	}
	return res, bad
}

// c19List: what List(true) shows: per repository the sidecar generation and the number of shards.
func (e *c19Env) list(q query.Q) (res []c19M, crashes int, err error) {
	rl, err := e.ss.List(context.Background(), q, nil)
	if err != nil {
		return []c19M{}, 0, err
	}
	res = []c19M{}
	for _, r := range rl.Repos {
		smt, _ := strconv.Atoi(r.Repository.RawConfig["side"])
		res = append(res, c19M{"r": r.Repository.Name, "smt": smt, "shards": r.Stats.Shards})
	}
	sort.Slice(res, func(i, j int) bool { return res[i]["r"].(string) < res[j]["r"].(string) })
	return res, rl.Crashes, nil
}

// ---------------------------------------------------------------- garbage collection with a sentinel

type c19Sentinel struct {
	p   *int
	pad [64]byte
}

//go:noinline
func c19Plant(ch chan struct{}) {
	s := &c19Sentinel{p: new(int)}
	runtime.SetFinalizer(s, func(*c19Sentinel) { close(ch) })
}

// c19GC: two collections; the finalizer goroutine runs finalizers in queue order, so when the
// second sentinel's finalizer has run, every finalizer queued by the first collection has.
func c19GC(t testing.TB) {
	for round := 0; round < 2; round++ {
		ch := make(chan struct{})
		c19Plant(ch)
		deadline := time.After(c19Wait)
		for done := false; !done; {
			runtime.GC()
			select {
			case <-ch:
				done = true
			case <-deadline:
				t.Fatalf("c19: sentinel finalizer did not run (inconclusive)")
			case <-time.After(5 * time.Millisecond):
			}
		}
	}
}

// ---------------------------------------------------------------- R: replay

type c19Cmd struct {
	C    string `json:"c"`
	R    string `json:"r"`
	F    int    `json:"f"`
	Side string `json:"side"`
	P    int    `json:"p"`
}

type c19Script struct {
	Repos []string `json:"repos"`
	Fmts  []int    `json:"fmts"`
	Procs int      `json:"procs"`
	Steps []c19Cmd `json:"steps"`
}

// c19Run: a search of the replay.  Odd process numbers go through StreamSearch (held in the first
// Send); even ones are the body of shardedSearcher.Search executed in three phases: snap =
// getLoaded(), read = streamSearch() returned (results not yet copied, only the done closure
// references the shards), finish = copyFiles + done().
type c19Run struct {
	snd  *c19Sender
	done chan error
	snap map[[2]uint64]bool

	direct  bool
	shards  []*rankedShard
	proc    *process
	collect *collectSender
	doneF   func()
	err     error
}

func (r *c19Run) read(e *c19Env) {
	opts := &zoekt.SearchOptions{Whole: true}
	ctx := context.Background()
	r.proc, r.err = e.ss.sched.Acquire(ctx)
	if r.err != nil {
		return
	}
	r.collect = newCollectSender(opts)
	r.doneF, r.err = streamSearch(ctx, r.proc, c19Query, opts, r.shards, r.collect)
	r.shards = nil // from here on only the done closure keeps the shards alive
}

type c19Replay struct {
	e        *c19Env
	clk      int
	nver     map[string]int
	scanDone chan error
	scanPC   string // idle, drop, load
	runs     map[int]*c19Run
}

func c19WaitStr(t testing.TB, ch chan string, what string) string {
	select {
	case s := <-ch:
		return s
	case <-time.After(c19Wait):
		t.Fatalf("c19: timeout waiting for %s (inconclusive)", what)
	}
	return ""
}

func (rp *c19Replay) step(t testing.TB, c c19Cmd) (res []c19M, bad, crashes int, note string) {
	e := rp.e
	k := c19Key{c.R, c.F}
	res = []c19M{}
	switch c.C {
	case "put", "replace":
		rp.clk++
		rp.nver[c.R]++
		e.write(k, rp.nver[c.R], rp.clk)
	case "delete":
		rp.clk++
		e.remove(k)
	case "sidecar":
		rp.clk++
		e.sidecar(k, c.Side, rp.clk)
	case "scanbegin":
		rp.scanDone = make(chan error, 1)
		go func(ch chan error) { ch <- e.dw.scan() }(rp.scanDone)
		if got := c19WaitStr(t, e.gate.at, "scan to reach drop"); got != "drop" {
			t.Fatalf("c19: scan reached %q, want drop", got)
		}
		rp.scanPC = "drop"
	case "scandrop":
		e.gate.rel <- struct{}{}
		if got := c19WaitStr(t, e.gate.at, "scan to reach load"); got != "load" {
			t.Fatalf("c19: scan reached %q, want load", got)
		}
		rp.scanPC = "load"
	case "scanload":
		e.gate.rel <- struct{}{}
		select {
		case err := <-rp.scanDone:
			if err != nil {
				note = "scan error: " + err.Error()
			}
		case <-time.After(c19Wait):
			t.Fatalf("c19: timeout waiting for scan to return (inconclusive)")
		}
		rp.scanPC = "idle"
	case "snap":
		if c.P%2 == 0 {
			r := &c19Run{direct: true, snap: map[[2]uint64]bool{}}
			rp.runs[c.P] = r
			r.shards = e.ss.getLoaded().shards
			maps := c19Maps(t)
			for _, rs := range r.shards {
				in := e.project(rs, maps)
				r.snap[[2]uint64{uint64(in.Addr), in.Ino}] = true
			}
			break
		}
		r := &c19Run{snd: &c19Sender{at: make(chan struct{}), rel: make(chan struct{})}, done: make(chan error, 1)}
		rp.runs[c.P] = r
		go func() {
			r.done <- e.ss.StreamSearch(context.Background(), c19Query, &zoekt.SearchOptions{Whole: true}, r.snd)
		}()
		select {
		case <-r.snd.at:
		case <-time.After(c19Wait):
			t.Fatalf("c19: timeout waiting for the search to take its snapshot (inconclusive)")
		}
		r.snap = map[[2]uint64]bool{}
		maps := c19Maps(t)
		for _, rs := range e.ss.getLoaded().shards {
			in := e.project(rs, maps)
			r.snap[[2]uint64{uint64(in.Addr), in.Ino}] = true
		}
	case "read":
		r := rp.runs[c.P]
		if !r.direct {
			t.Fatalf("c19: read on a StreamSearch process")
		}
		r.read(e)
	case "finish":
		r := rp.runs[c.P]
		delete(rp.runs, c.P)
		if r.direct {
			if r.doneF == nil && r.err == nil {
				r.read(e)
			}
			if r.err != nil {
				note = "search error: " + r.err.Error()
				if r.doneF != nil {
					r.doneF()
				}
				break
			}
			var hits []c19Hit
			if agg, ok := r.collect.Done(); ok {
				copyFiles(agg)
				for _, f := range agg.Files {
					hits = append(hits, c19Hit{f.Repository, string(f.Content)})
				}
				crashes = agg.Stats.Crashes
			}
			r.doneF()
			r.proc.Release()
			res, bad = c19Result(hits)
			break
		}
		r.snd.rel <- struct{}{}
		select {
		case err := <-r.done:
			if err != nil {
				note = "search error: " + err.Error()
			}
		case <-time.After(c19Wait):
			t.Fatalf("c19: timeout waiting for the search to finish (inconclusive)")
		}
		res, bad = c19Result(r.snd.hits)
		crashes = r.snd.crashes
	case "gc":
		c19GC(t)
	default:
		t.Fatalf("c19: unknown command %q", c.C)
	}
	return
}

func c19RunScript(t testing.TB, tr *c19Trace, base string, k int, sc c19Script) {
	e := c19NewEnv(t, base, true)
	rp := &c19Replay{e: e, nver: map[string]int{}, scanPC: "idle", runs: map[int]*c19Run{}}
	tr.Emit(c19M{"ev": "reset", "k": k, "repos": sc.Repos, "fmts": sc.Fmts, "procs": sc.Procs})
	steps := append([]c19Cmd(nil), sc.Steps...)
	aborted := false
	for i := 0; i < len(steps) || !aborted; i++ {
		if i >= len(steps) {
			// drain: finish what the script left open (validated like any other step), then collect
			switch {
			case rp.scanPC == "drop":
				steps = append(steps, c19Cmd{C: "scandrop"})
			case rp.scanPC == "load":
				steps = append(steps, c19Cmd{C: "scanload"})
			case len(rp.runs) > 0:
				var ps []int
				for p := range rp.runs {
					ps = append(ps, p)
				}
				sort.Ints(ps)
				steps = append(steps, c19Cmd{C: "finish", P: ps[0]})
			default:
				aborted = true
				continue
			}
		}
		c := steps[i]
		// never let a search run into a mapping that is already gone: that would kill the
		// process; the unmapped instance is reported by this step's observation instead
		if c.C == "finish" || c.C == "read" {
			if held := rp.heldUnmapped(c.P); held {
				tr.Emit(c19M{"ev": "abort", "k": k, "i": i, "why": "snapshot-unmapped"})
				return // the blocked search goroutine is abandoned
			}
		}
		res, bad, crashes, note := rp.step(t, c)
		loaded, ranked, mism := e.state()
		vis, lcr, lerr := e.list(&query.Const{Value: true})
		if lerr != nil {
			note += " list error: " + lerr.Error()
		}
		tr.Emit(c19M{"ev": "step", "k": k, "i": i, "c": c.C, "r": c.R, "f": c.F, "side": c.Side, "p": c.P,
			"loaded": loaded, "ranked": ranked, "keybad": mism, "res": res, "bad": bad, "crashes": crashes + lcr,
			"vis": vis, "unmapped": e.unmapped(), "note": note})
	}
	e.destroy()
}

// heldUnmapped: does the snapshot of the gated search p (the instances ranked when it was gated,
// recorded as values) contain an instance whose mapping is gone?
func (rp *c19Replay) heldUnmapped(p int) bool {
	r := rp.runs[p]
	if r == nil {
		return false
	}
	maps := c19Maps(rp.e.t)
	for k := range r.snap {
		if ino, ok := maps[k[0]]; !ok || ino != k[1] {
			return true
		}
	}
	return false
}

func TestVerif_C19_Replay(t *testing.T) {
	scripts := verifkit.ReadScripts(t)
	tr := c19Open(t)
	base := os.Getenv("VERIF_WORK")
	for k, raw := range scripts {
		var sc c19Script
		if err := json.Unmarshal(raw, &sc); err != nil {
			t.Fatal(err)
		}
		c19RunScript(t, tr, base, k, sc)
		if k%40 == 39 {
			c19GC(t) // closes what the finished environments left mapped
		}
	}
	tr.Emit(c19M{"ev": "end", "scripts": len(scripts)})
}

// ---------------------------------------------------------------- V: stress

type c19Disk struct {
	ver  int
	side string
	smt  int
}

func c19StressRound(t *testing.T, tr *c19Trace, base string, round int, rng interface{ Intn(int) int }, ops, cap_ int) {
	var seq, activity, scans atomic.Int64 // activity: directory changes + publications so far
	e := c19NewEnv(t, base, false)
	e.gate.seq = &seq
	repos := []string{"a", "b"}
	fmts := [][]int{{16}, {16, 17}, {15, 16, 17, 18}, {16, 17, 18}}[rng.Intn(4)]
	if rng.Intn(3) == 0 {
		repos = []string{"a", "b", "c"}
	}
	nsearch := 4 + rng.Intn(13)
	tr.Emit(c19M{"ev": "sreset", "round": round, "repos": repos, "fmts": fmts, "searchers": nsearch})
	e.gate.ident = func(keys []string) map[string][2]uint64 {
		maps := c19Maps(t)
		res := map[string][2]uint64{}
		e.ss.mu.Lock()
		for _, p := range keys {
			if rs := e.ss.shards[p]; rs != nil {
				in := e.project(rs, maps)
				res[p] = [2]uint64{uint64(in.Addr), in.Ino}
			}
		}
		e.ss.mu.Unlock()
		return res
	}
	e.gate.obs = func(kind string, keys []string, before map[string][2]uint64, pre, post int64) {
		maps := c19Maps(t)
		files := []c19M{}
		sort.Strings(keys)
		for _, p := range keys {
			k, _ := e.keyOf(p)
			e.ss.mu.Lock()
			rs := e.ss.shards[p]
			var in c19Inst
			if rs != nil {
				in = e.project(rs, maps)
			}
			e.ss.mu.Unlock()
			// fresh: this call put a new instance there (a failed load leaves the old one)
			fresh := rs != nil && before[p] != [2]uint64{uint64(in.Addr), in.Ino}
			files = append(files, c19M{"r": k.Repo, "f": k.Fmt, "present": rs != nil, "fresh": fresh, "ir": in.Repo, "if": in.Fmt,
				"ver": in.Ver, "side": in.Side + "", "smt": in.Smt})
		}
		if len(files) > 0 {
			activity.Add(1)
			tr.Emit(c19M{"ev": "pub", "round": round, "kind": kind, "s0": pre, "s1": post, "files": files})
		}
	}

	var stop atomic.Bool
	var fail atomic.Value
	var wg sync.WaitGroup
	ctx := context.Background()
	pub := &typeRepoSearcher{Streamer: e.ss}

	// scanner
	wg.Add(1)
	go func() {
		defer wg.Done()
		for !stop.Load() {
			s0 := seq.Add(1)
			err := e.dw.scan()
			s1 := seq.Add(1)
			note := ""
			if err != nil {
				note = err.Error()
			}
			scans.Add(1)
			if note != "" {
				tr.Emit(c19M{"ev": "scan", "round": round, "s0": s0, "s1": s1, "note": note})
			}
			runtime.Gosched()
		}
	}()
	// garbage collector
	wg.Add(1)
	go func() {
		defer wg.Done()
		for !stop.Load() {
			runtime.GC()
			time.Sleep(time.Duration(verifkit.EnvInt("VERIF_C19_GCMS", 10)) * time.Millisecond)
		}
	}()
	// searchers
	for s := 0; s < nsearch; s++ {
		wg.Add(1)
		go func(s int) {
			defer wg.Done()
			n, logged := 0, 0
			seen := int64(-1)
			for !stop.Load() {
				act := activity.Load()
				kind := []string{"search", "stream", "list", "listq"}[(s+n)%4]
				if s%4 == 3 {
					kind = []string{"search", "stream"}[n%2]
				}
				s0 := seq.Add(1)
				var res []c19M
				var bad, crashes int
				note := ""
				switch kind {
				case "search":
					sr, err := pub.Search(ctx, c19Query, &zoekt.SearchOptions{Whole: true})
					if err != nil {
						note = err.Error()
						res = []c19M{}
						break
					}
					var hits []c19Hit
					for _, f := range sr.Files {
						hits = append(hits, c19Hit{f.Repository, string(f.Content)})
					}
					res, bad = c19Result(hits)
					crashes = sr.Stats.Crashes
				case "stream":
					snd := &c19Sender{}
					if err := pub.StreamSearch(ctx, c19Query, &zoekt.SearchOptions{Whole: true}, snd); err != nil {
						note = err.Error()
					}
					res, bad = c19Result(snd.hits)
					crashes = snd.crashes
				case "list", "listq":
					var q query.Q = &query.Const{Value: true}
					if kind == "listq" {
						q = c19Query
					}
					var err error
					res, crashes, err = e.list(q)
					if err != nil {
						note = err.Error()
					}
				}
				s1 := seq.Add(1)
				n++
				// log an observation when the directory or the loaded set changed since the last one logged
				if (act != seen || activity.Load() != act) && logged < cap_ {
					seen = act
					logged++
					tr.Emit(c19M{"ev": "obs", "round": round, "kind": kind, "s0": s0, "s1": s1, "res": res, "bad": bad,
						"crashes": crashes, "note": note, "who": s})
				}
			}
		}(s)
	}

	// mutator (this goroutine)
	tStart := time.Now()
	opTime := map[string]time.Duration{}
	disk := map[c19Key]*c19Disk{}
	nver := map[string]int{}
	poolN := verifkit.EnvInt("VERIF_C19_POOLN", 24)
	clk := 0
	for i := 0; i < ops && fail.Load() == nil; i++ {
		k := c19Key{repos[rng.Intn(len(repos))], fmts[rng.Intn(len(fmts))]}
		d := disk[k]
		c, side := "", ""
		full := nver[k.Repo] >= poolN
		switch x := rng.Intn(10); {
		case d == nil && full:
			continue
		case d == nil:
			c = "put"
		case x < 4 && !full:
			c = "replace"
		case x < 6:
			c = "delete"
		default:
			c = "sidecar"
			side = []string{"none", "tomb", "live"}[rng.Intn(3)]
			if side == d.side {
				side = map[string]string{"none": "tomb", "tomb": "live", "live": "none"}[side]
			}
		}
		clk++
		tOp := time.Now()
		s0 := seq.Add(1)
		ver := 0
		switch c {
		case "put", "replace":
			nver[k.Repo]++
			ver = nver[k.Repo]
			e.write(k, ver, clk)
			if d == nil {
				disk[k] = &c19Disk{ver: ver, side: "none"}
			} else {
				d.ver = ver
			}
		case "delete":
			e.remove(k)
			delete(disk, k)
		case "sidecar":
			e.sidecar(k, side, clk)
			d.side, d.smt = side, clk
			if side == "none" {
				d.smt = 0
			}
		}
		s1 := seq.Add(1)
		opTime[c] += time.Since(tOp)
		activity.Add(1)
		tr.Emit(c19M{"ev": "disk", "round": round, "s0": s0, "s1": s1, "c": c, "r": k.Repo, "f": k.Fmt, "side": side, "ver": ver, "clk": clk})
		switch rng.Intn(4) {
		case 0:
			runtime.Gosched()
		case 1:
			time.Sleep(time.Duration(rng.Intn(2000)) * time.Microsecond)
		}
	}
	tMut := time.Since(tStart)
	stop.Store(true)
	wg.Wait()
	t.Logf("c19 stress round %d: %d ops in %v, %d scans, join %v, per kind %v", round, ops, tMut, scans.Load(), time.Since(tStart)-tMut, opTime)

	// quiescence: nothing changes any more; two complete scans, collection, final observations
	for i := 0; i < 2; i++ {
		s0 := seq.Add(1)
		err := e.dw.scan()
		note := ""
		if err != nil {
			note = err.Error()
		}
		s1 := seq.Add(1)
		scans.Add(1)
		if note != "" {
			tr.Emit(c19M{"ev": "scan", "round": round, "s0": s0, "s1": s1, "note": note})
		}
	}
	c19GC(t)
	loaded, ranked, mism := e.state()
	onDisk := []c19M{}
	names, _ := filepath.Glob(filepath.Join(e.dir, "*.zoekt"))
	sort.Strings(names)
	for _, p := range names {
		k, _ := e.keyOf(p)
		_, merr := os.Lstat(p + ".meta")
		ver := 0
		e.mu.Lock()
		if w, ok := e.inos[c19Ino(t, p)]; ok {
			ver = w.Ver
		}
		e.mu.Unlock()
		onDisk = append(onDisk, c19M{"r": k.Repo, "f": k.Fmt, "ver": ver, "meta": merr == nil})
	}
	sr, err := pub.Search(ctx, c19Query, &zoekt.SearchOptions{Whole: true})
	note := ""
	res, bad, crashes := []c19M{}, 0, 0
	if err != nil {
		note = err.Error()
	} else {
		var hits []c19Hit
		for _, f := range sr.Files {
			hits = append(hits, c19Hit{f.Repository, string(f.Content)})
		}
		res, bad = c19Result(hits)
		crashes = sr.Stats.Crashes
	}
	vis, lcr, lerr := e.list(&query.Const{Value: true})
	if lerr != nil {
		note += " " + lerr.Error()
	}
	tr.Emit(c19M{"ev": "final", "round": round, "s0": seq.Add(1), "loaded": loaded, "ranked": ranked, "keybad": mism,
		"files": onDisk, "res": res, "bad": bad, "crashes": crashes + lcr, "vis": vis, "unmapped": e.unmapped(), "note": note, "scans": scans.Load()})
	e.destroy()
}

func TestVerif_C19_Stress(t *testing.T) {
	tr := c19Open(t)
	rounds := verifkit.EnvInt("VERIF_C19_ROUNDS", 2)
	ops := verifkit.EnvInt("VERIF_C19_OPS", 120)
	cap_ := verifkit.EnvInt("VERIF_C19_CAP", 120)
	for round := 0; round < rounds; round++ {
		c19StressRound(t, tr, os.Getenv("VERIF_WORK"), round, verifkit.Rng(int64(1900+round)), ops, cap_)
	}
	tr.Emit(c19M{"ev": "end", "scripts": rounds})
}
