//go:build verif

package search_test

import (
	"fmt"
	"math/rand"
	"os"
	"strings"
	"testing"

	"github.com/grafana/regexp"

	"github.com/sourcegraph/zoekt"
	"github.com/sourcegraph/zoekt/internal/verifkit"
	"github.com/sourcegraph/zoekt/internal/verifkit/corpus"
)

// exhaustive small scope: every content up to a length over {a,b,A,\n} as one document each,
// in one simple shard and again spread over 3 repositories of a compound shard.
func c01SmallCorpus(id, maxLen int, compound bool) *corpus.Corpus {
	sigma := []rune{'a', 'b', 'A', '\n'}
	c := &corpus.Corpus{ID: id}
	nrep := 1
	if compound {
		nrep = 3
	}
	for i := 0; i < nrep; i++ {
		c.Repos = append(c.Repos, corpus.Repo{Name: fmt.Sprintf("repo/%d", i), ID: uint32(20 + i), Branches: []string{"HEAD"}, Shard: 0})
	}
	var all []string
	prev := []string{""}
	all = append(all, "")
	for l := 1; l <= maxLen; l++ {
		var cur []string
		for _, p := range prev {
			for _, r := range sigma {
				cur = append(cur, p+string(r))
			}
		}
		all = append(all, cur...)
		prev = cur
	}
	for k, s := range all {
		c.Docs = append(c.Docs, corpus.Doc{Repo: k % nrep, Name: fmt.Sprintf("f%d", k), Content: s, Branches: []int{0}, Lang: "Text"})
	}
	return c
}

func c01Patterns(maxLen int) []string {
	sigma := []rune{'a', 'b', 'A'}
	var all []string
	prev := []string{""}
	for l := 1; l <= maxLen; l++ {
		var cur []string
		for _, p := range prev {
			for _, r := range sigma {
				cur = append(cur, p+string(r))
			}
		}
		all = append(all, cur...)
		prev = cur
	}
	return all
}

func TestVerif_C01_Exhaustive(t *testing.T) {
	tr := verifkit.Open(t)
	defer tr.Close()
	tr.Emit(corpus.FoldEvent())
	maxLen := verifkit.EnvInt("VERIF_DOCLEN", verifkit.Pick(4, 5))
	detail := verifkit.EnvInt("VERIF_DETAIL", corpus.DetailFiles)
	rng := verifkit.Rng(77)
	pats := c01Patterns(4)
	for ci, compound := range []bool{false, true} {
		c := c01SmallCorpus(1000+ci, maxLen, compound)
		l := c01Load(t, c, false)
		tr.Emit(c.Event())
		run := func(q *corpus.Q) {
			opts := &zoekt.SearchOptions{ChunkMatches: rng.Intn(2) == 0, NumContextLines: rng.Intn(3)}
			c01Search(tr, l, "shard", 0, q, opts, detail, nil)
		}
		for _, p := range pats {
			// every pattern in the simple shard; in the compound shard a seeded third of them
			if compound && rng.Intn(3) != 0 {
				continue
			}
			run(&corpus.Q{T: "substr", Pat: p, CT: true, CS: true})
			run(&corpus.Q{T: "substr", Pat: p, CT: true, CS: false})
		}
		// regexp skeletons instantiated with patterns
		skel := []string{"%s", "%s.*%s", "%s|%s", `\b%s\b`, "(%s)+", `%s\n%s`, "^%s", "%s$", "(?m)^%s$", "%s[ab]%s", "%s.%s", "(?s)%s.%s", "%s|%s%s", "%s%s|%s"}
		nre := verifkit.Pick(120, 600)
		if compound {
			nre /= 3
		}
		for k := 0; k < nre; k++ {
			sk := skel[rng.Intn(len(skel))]
			n := strings.Count(sk, "%s")
			args := make([]any, n)
			for i := range args {
				args[i] = regexp.QuoteMeta(pats[rng.Intn(len(pats))])
			}
			run(&corpus.Q{T: "regex", Pat: fmt.Sprintf(sk, args...), CT: true, CS: rng.Intn(2) == 0})
		}
		l.Close()
	}
}

// c02Corpus: few documents, dense in matches: repeated motifs, overlapping occurrences, matches
// across newlines, multi-byte runes before matches, matches around rune offsets 99..101/199..201.
func c02Corpus(rng *rand.Rand, id int, long bool) *corpus.Corpus {
	c := &corpus.Corpus{ID: id}
	c.Repos = append(c.Repos, corpus.Repo{Name: "repo/r", ID: 31, Branches: []string{"HEAD", "dev"}, Shard: 0})
	motifs := []string{"xa a a", "a a a", "a-a-a", "aaa", "abab", "abcabc", "aa\naa", "é中a", "Abc", "aBc", "abc", "ß", "😀", "\n", "\n\n", "\r\n", " ", "a", "b", "xyz.go", "(", ".", "aéb", "a中b", "aßa", "a😀b"}
	nd := 2 + rng.Intn(4)
	for k := 0; k < nd; k++ {
		var sb strings.Builder
		n := rng.Intn(40)
		if long && k == 0 {
			n = 90 + rng.Intn(130)
		}
		for l := 0; l < n; {
			m := motifs[rng.Intn(len(motifs))]
			sb.WriteString(m)
			l += len([]rune(m))
		}
		s := sb.String()
		if rng.Intn(3) == 0 {
			s += "\n"
		}
		name := []string{"a.go", "dir/abc.txt", "é中/aaa.md", "abab", "x/aBc.c", "aaa"}[k%6]
		c.Docs = append(c.Docs, corpus.Doc{Repo: 0, Name: name, Content: s, Branches: []int{rng.Intn(2)}, Lang: "Text"})
	}
	return c
}

// c02Bordered: a text B M B M' B ... and patterns with a border (prefix = suffix), so that
// occurrences overlap each other and overlap near misses (candidates of the trigram index that
// fail verification) — whichever trigram pair the matcher picks.
func c02Bordered(rng *rand.Rand) (string, []string, string) {
	B := []string{"foo", "ab_", "aXa", "éab", "abc", "aaa", "a_b_"}[rng.Intn(7)]
	sig := []rune("abc_x")
	mid := make([]rune, 2+rng.Intn(4))
	for i := range mid {
		mid[i] = sig[rng.Intn(len(sig))]
	}
	M := string(mid)
	mut := func() string {
		m := append([]rune{}, mid...)
		m[rng.Intn(len(m))] = sig[rng.Intn(len(sig))]
		return string(m)
	}
	var sb strings.Builder
	sb.WriteString(B)
	for n := 3 + rng.Intn(8); n > 0; n-- {
		switch rng.Intn(5) {
		case 0, 1:
			sb.WriteString(M)
		case 2, 3:
			sb.WriteString(mut())
		default:
			sb.WriteString("\n")
		}
		sb.WriteString(B)
	}
	// noise: every trigram of the pattern B M B except those inside the borders, many times: the
	// borders become the selective trigrams, and B M' B a candidate that fails verification
	br := []rune(B)
	noise := strings.Repeat(string(br[1:])+M+string(br[:len(br)-1])+" ", 12+rng.Intn(12))
	return sb.String(), []string{B + M + B, B + M + B + M + B, M + B + M, B + mut() + B, M + B}, noise
}

func TestVerif_C02_Dense(t *testing.T) {
	tr := verifkit.Open(t)
	defer tr.Close()
	tr.Emit(corpus.FoldEvent())
	ncorp := verifkit.EnvInt("VERIF_CORPORA", verifkit.Pick(25, 250))
	detail := verifkit.EnvInt("VERIF_DETAIL", corpus.DetailRanges)
	for ci := 0; ci < ncorp; ci++ {
		rng := verifkit.Rng(int64(5000 + ci))
		c := c02Corpus(rng, ci+1, ci%4 == 0)
		var bordered []string
		if ci%2 == 1 {
			var text string
			var noise string
			text, bordered, noise = c02Bordered(rng)
			c.Docs = append(c.Docs, corpus.Doc{Repo: 0, Name: "bordered.txt", Content: text, Branches: []int{0}, Lang: "Text"})
			if rng.Intn(3) > 0 {
				c.Docs = append(c.Docs, corpus.Doc{Repo: 0, Name: "noise.txt", Content: noise, Branches: []int{0}, Lang: "Text"})
			}
			if rng.Intn(2) == 0 {
				t2, _, _ := c02Bordered(rng)
				c.Docs = append(c.Docs, corpus.Doc{Repo: 0, Name: "bordered2.txt", Content: t2 + " " + text, Branches: []int{0}, Lang: "Text"})
			}
		}
		l := c01Load(t, c, ci%3 == 0)
		tr.Emit(c.Event())
		g := &corpus.QGen{Rng: rng, C: c}
		pick := func() string { return c.PickPattern(rng, false) }
		var qs []*corpus.Q
		for _, p := range bordered {
			qs = append(qs, &corpus.Q{T: "substr", Pat: p, CT: true, CS: rng.Intn(3) > 0})
		}
		if len(bordered) > 0 {
			qs = append(qs, &corpus.Q{T: "regex", Pat: regexpQuote(bordered[0]), CT: true, CS: true})
		}
		for k := 0; k < 5; k++ {
			qs = append(qs, &corpus.Q{T: "substr", Pat: pick(), CT: true, CS: rng.Intn(2) == 0})
		}
		for _, p := range []string{"aa", "aaa", "abab", "a", "\n", "aa\na", "bc", "é", "ß", "abcabc"} {
			if rng.Intn(3) == 0 {
				qs = append(qs, &corpus.Q{T: "substr", Pat: p, CT: true, CS: rng.Intn(2) == 0})
			}
		}
		res := []string{"a+", "(ab)+", "a.a", `a\na`, "(?s)a.*?b", "a*", "^a", "a$", "(?m)^a", "(?m)a$", `\baaa\b`, `\babab\b`, `\ba a\b`, `\ba-a\b`, `\ba\b`, "abc|abcabc", "abcabc|abc",
			"ab|abab", "(?s)abc.*abab", "(?s)aaa.*?abc", "abc(?s:.)*aaa", "(?s)abab.*Abc", "aaa.*abc", "[ab]+", "[^a\n]+", `\n+`, "(?i)abc", "é.", `\bé`, "a{2,3}", "(a|b)(a|b)", `aa\naa`, "b?a", "(?m)^$", `\s+`, ".*", "(?s).*", `a\b`, "aBc|Abc"}
		for k := 0; k < 8; k++ {
			qs = append(qs, &corpus.Q{T: "regex", Pat: res[rng.Intn(len(res))], CT: true, CS: rng.Intn(2) == 0})
		}
		for k := 0; k < 2; k++ {
			qs = append(qs, &corpus.Q{T: "regex", Pat: g.RegexFor(false), CT: true, CS: rng.Intn(2) == 0})
		}
		// ASCII-only patterns whose meaning depends on what one character is (rune, not byte) next to
		// multi-byte text: engines / engine modes differ exactly here
		runeRes := []string{"a.b", "a..b", `a\Wb`, "a[^b]b", `a\Sa`, "a.{1,2}b", "(?s)a.b", "a[^a]a", `\w\W\w`, "b.a"}
		nrr := 2
		if os.Getenv("VERIF_DENSE_RUNES") != "" {
			nrr = len(runeRes)
		}
		for _, k := range rng.Perm(len(runeRes))[:nrr] {
			qs = append(qs, &corpus.Q{T: "regex", Pat: runeRes[k], CT: true, CS: rng.Intn(2) == 0})
		}
		// file-name and mixed queries: ranges must be justified by some atom
		qs = append(qs, &corpus.Q{T: "substr", Pat: c.PickPattern(rng, true), FN: true, CS: rng.Intn(2) == 0})
		qs = append(qs, &corpus.Q{T: "regex", Pat: "a+|b", FN: true, CS: true})
		qs = append(qs, &corpus.Q{T: "and", Sub: []*corpus.Q{{T: "substr", Pat: pick(), CT: true}, {T: "regex", Pat: res[rng.Intn(len(res))], CT: true, CS: true}}})
		qs = append(qs, &corpus.Q{T: "or", Sub: []*corpus.Q{{T: "substr", Pat: pick()}, {T: "substr", Pat: pick(), CT: true, CS: true}, {T: "regex", Pat: res[rng.Intn(len(res))]}}})
		qs = append(qs, g.Tree(2))
		for _, q := range qs {
			for _, chunk := range []bool{false, true} {
				opts := &zoekt.SearchOptions{ChunkMatches: chunk, NumContextLines: []int{0, 1, 2, 5}[rng.Intn(4)]}
				if l.dir != nil && rng.Intn(2) == 0 {
					c01Search(tr, l, "dir", 0, q, opts, detail, nil)
				} else {
					c01Search(tr, l, "shard", 0, q, opts, detail, nil)
				}
			}
		}
		l.Close()
	}
}

// c03Line: a line of exactly n bytes including its newline, containing "abc".
func c03Line(n int) string { return "abc" + strings.Repeat("y", n-4) + "\n" }

// C03: line-layout classes (no trailing newline, only newlines, empty lines, CRLF, long line,
// multi-byte runes before the match), all context sizes, both modes.
func c03Corpus(rng *rand.Rand, id int) *corpus.Corpus {
	c := &corpus.Corpus{ID: id}
	c.Repos = append(c.Repos, corpus.Repo{Name: "repo/g", ID: 41, Branches: []string{"HEAD"}, Shard: 0})
	lines := []string{"", "a", "ab", "abc", "é中abc", "😀a😀", "aaa aaa", "x", "abcabc", "  abc  ", "ßabcß", "b", "a\r", "abc\r", strings.Repeat("xy", 60) + "abc" + strings.Repeat("é", 30)}
	fixed := []string{"\n\n\n", "a", "abc", "abc\n", "\nabc", "\n\nabc\n\n", "abc\nabc", "a\nb\nc\nabc\nd\ne\nf\nabc\ng", "abc\r\nabc\r\n",
		// lines whose length (with the newline) sits at the boundaries of the newline table's varint deltas
		"abc\n" + c03Line(127) + c03Line(128) + "abc\n" + c03Line(129) + "abc",
		c03Line(128) + "abc\nabc\n" + c03Line(128) + c03Line(128) + "x abc\n",
		c03Line(256) + "abc\n" + c03Line(255) + "abc\n\nabc"}
	nd := 3 + rng.Intn(3)
	for k := 0; k < nd; k++ {
		var s string
		if rng.Intn(3) == 0 || (k == 0 && id%3 == 0) {
			s = fixed[rng.Intn(len(fixed))]
			if k == 0 && id%3 == 0 {
				s = fixed[len(fixed)-1-(id/3)%3]
			}
		} else {
			n := 1 + rng.Intn(12)
			parts := make([]string, n)
			for i := range parts {
				parts[i] = lines[rng.Intn(len(lines))]
			}
			s = strings.Join(parts, "\n")
			if rng.Intn(2) == 0 {
				s += "\n"
			}
		}
		c.Docs = append(c.Docs, corpus.Doc{Repo: 0, Name: fmt.Sprintf("d%d/é%d.txt", k, k), Content: s, Branches: []int{0}, Lang: "Text"})
	}
	return c
}

func TestVerif_C03_Layout(t *testing.T) {
	tr := verifkit.Open(t)
	defer tr.Close()
	tr.Emit(corpus.FoldEvent())
	ncorp := verifkit.EnvInt("VERIF_CORPORA", verifkit.Pick(30, 300))
	for ci := 0; ci < ncorp; ci++ {
		rng := verifkit.Rng(int64(9000 + ci))
		c := c03Corpus(rng, ci+1)
		l := c01Load(t, c, false)
		tr.Emit(c.Event())
		qs := []*corpus.Q{
			{T: "substr", Pat: "abc", CT: true, CS: true},
			{T: "substr", Pat: "a", CT: true},
			{T: "regex", Pat: `abc\r?\n+a`, CT: true, CS: true},
			{T: "regex", Pat: `a\nb\nc`, CT: true, CS: true},
			{T: "regex", Pat: `(?s)b.*?a`, CT: true, CS: true},
			{T: "regex", Pat: `(?m)^a`, CT: true},
			{T: "regex", Pat: `\n`, CT: true},
			{T: "substr", Pat: "é", CT: true},
			{T: "substr", Pat: "txt", FN: true},
			{T: "regex", Pat: "é[0-9]", FN: true},
			{T: "or", Sub: []*corpus.Q{{T: "substr", Pat: "x", CT: true}, {T: "substr", Pat: "b", CT: true, CS: true}}},
			{T: "lang", S: "Text"},
		}
		for _, q := range qs {
			if rng.Intn(3) == 0 {
				continue
			}
			for _, chunk := range []bool{false, true} {
				opts := &zoekt.SearchOptions{ChunkMatches: chunk, NumContextLines: rng.Intn(6)}
				c01Search(tr, l, "shard", 0, q, opts, corpus.DetailGeometry, nil)
			}
		}
		l.Close()
	}
}
