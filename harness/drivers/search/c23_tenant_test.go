//go:build verif

package search_test

import (
	"context"
	"fmt"
	"sort"
	"testing"

	"github.com/sourcegraph/zoekt"
	"github.com/sourcegraph/zoekt/internal/tenant/systemtenant"
	"github.com/sourcegraph/zoekt/internal/tenant/tenanttest"
	"github.com/sourcegraph/zoekt/internal/verifkit"
	"github.com/sourcegraph/zoekt/internal/verifkit/corpus"
)

// C23: strict tenant enforcement. Compound shards mixing repositories of tenants 1..3; requests
// made as tenant 1, tenant 2, without tenant, and as the system context.

type c23Names struct {
	list []verifkit.M
	ids  []uint32
}

func (n *c23Names) add(channel, name string) {
	n.list = append(n.list, verifkit.M{"channel": channel, "name": verifkit.Runes(name)})
}

func c23FromResult(res *zoekt.SearchResult) *c23Names {
	n := &c23Names{}
	for _, f := range res.Files {
		n.add("Files.Repository", f.Repository)
		n.ids = append(n.ids, f.RepositoryID)
		if f.SubRepositoryName != "" {
			n.add("Files.SubRepositoryName", f.SubRepositoryName)
		}
	}
	var ks []string
	for k := range res.RepoURLs {
		ks = append(ks, k)
	}
	sort.Strings(ks)
	for _, k := range ks {
		n.add("RepoURLs", k)
	}
	ks = nil
	for k := range res.LineFragments {
		ks = append(ks, k)
	}
	sort.Strings(ks)
	for _, k := range ks {
		n.add("LineFragments", k)
	}
	return n
}

func TestVerif_C23_Tenant(t *testing.T) {
	tr := verifkit.Open(t)
	defer tr.Close()
	tenanttest.MockEnforce(t)
	tenanttest.ResetTestTenants()
	ctxs := map[string]context.Context{
		"t1":     tenanttest.NewTestContext(),
		"t2":     tenanttest.NewTestContext(),
		"none":   context.Background(),
		"system": systemtenant.WithUnsafeContext(context.Background()),
	}
	whos := []string{"t1", "t2", "none", "system"}
	tr.Emit(corpus.FoldEvent())
	ncorp := verifkit.EnvInt("VERIF_CORPORA", verifkit.Pick(12, 150))
	for ci := 0; ci < ncorp; ci++ {
		rng := verifkit.Rng(int64(23000 + ci))
		c := corpus.Gen(rng, ci+1, corpus.Profile{MaxRepos: 4, MaxDocs: 4, MaxLen: 24, Compound: true, OneShard: ci%2 == 0, Tombstones: ci%3 == 0})
		for try := 1; ci%4 == 0 && len(c.Repos) < 3 && try < 20; try++ {
			// (the arrangement below needs three repositories in the shard)
			c = corpus.Gen(verifkit.Rng(int64(23000+ci+1000*try)), ci+1, corpus.Profile{MaxRepos: 4, MaxDocs: 4, MaxLen: 24, Compound: true, OneShard: true})
		}
		for i := range c.Repos {
			c.Repos[i].Tenant = 1 + rng.Intn(3)
		}
		// repository names are only unique per tenant: let two repositories of different tenants
		// share a name in half of the corpora (ids stay distinct)
		if ci%2 == 1 {
			// two live repositories of different tenants sharing a name inside ONE shard
			done := false
			for a := 0; a < len(c.Repos) && !done; a++ {
				for b := a + 1; b < len(c.Repos) && !done; b++ {
					if c.Repos[a].Shard == c.Repos[b].Shard {
						if c.Repos[a].Tenant == c.Repos[b].Tenant {
							c.Repos[b].Tenant = c.Repos[a].Tenant%3 + 1
						}
						c.Repos[b].Name = c.Repos[a].Name
						c.Repos[a].Tomb, c.Repos[b].Tomb = false, false
						c.Repos[a].Tenant = 1 + ci/2%2 // make sure one of them belongs to a requesting tenant
						if c.Repos[b].Tenant == c.Repos[a].Tenant {
							c.Repos[b].Tenant = 3
						}
						done = true
					}
				}
			}
		}
		if ci%4 == 0 && len(c.Repos) >= 3 && c.Repos[0].Shard == c.Repos[1].Shard && c.Repos[1].Shard == c.Repos[2].Shard {
			// a tombstoned repository in front of a requesting tenant's repository in front of a foreign one,
			// all in one compound shard: per-repository tables of the shard must stay aligned
			for i := range c.Repos {
				c.Repos[i].Tomb = false
			}
			c.Repos[0].Tomb = true
			c.Repos[1].Tenant = 1 + (ci/4)%2
			c.Repos[2].Tenant = 3 - (ci/4)%2
			c.Repos[0].Tenant = c.Repos[1].Tenant
			for i := range c.Repos {
				c.Repos[i].Prio = len(c.Repos) - i // shard order = corpus order
			}
		}
		l := c01Load(t, c, true)
		tr.Emit(c.Event())
		g := &corpus.QGen{Rng: rng, C: c, Dir: true}
		qs := []*corpus.Q{{T: "const", B: true}, {T: "substr", Pat: "a"}, {T: "type", S: "repo", Sub: []*corpus.Q{{T: "substr", Pat: "a"}}},
			{T: "reposet", Names: []string{c.Repos[0].Name, c.Repos[len(c.Repos)-1].Name}},
			{T: "repo", Pat: "."}, {T: "repoids", IDs: []uint32{c.Repos[0].ID}}, g.Tree(2), g.Tree(2)}
		for _, q := range qs {
			zq := q.Zoekt()
			hasTypeRepo := q.T == "type" || q.T == "and" || q.T == "or" || q.T == "not" || q.T == "boost"
			type target struct {
				kind  string
				shard int
			}
			targets := []target{{"dir", 0}}
			if !hasTypeRepo {
				// also every shard searcher directly (the sharded searcher merges list entries by name)
				seen := map[int]bool{}
				for _, r := range c.Repos {
					if !seen[r.Shard] {
						seen[r.Shard] = true
						targets = append(targets, target{"shard", r.Shard})
					}
				}
			}
			for _, who := range whos {
				for _, tg := range targets {
					ctx := ctxs[who]
					kind, shard := tg.kind, tg.shard
					var s zoekt.Streamer = l.dir
					emit := func(op, outcome string, n *c23Names, files []verifkit.M) {
						if n == nil {
							n = &c23Names{}
						}
						if n.list == nil {
							n.list = []verifkit.M{}
						}
						if n.ids == nil {
							n.ids = []uint32{}
						}
						if files == nil {
							files = []verifkit.M{}
						}
						tr.Emit(verifkit.M{"ev": "tenant", "cid": c.ID, "op": op, "who": who, "kind": kind, "shard": shard, "q": q.JSON(),
							"qs": zq.String(), "outcome": outcome, "names": n.list, "ids": n.ids, "files": files, "mode": "line", "ctx": 0})
					}
					search := func(opts *zoekt.SearchOptions) (*zoekt.SearchResult, string) {
						var res *zoekt.SearchResult
						var err error
						p := verifkit.Catch(func() {
							if kind == "shard" {
								res, err = l.shards[shard].Search(ctx, zq, opts)
							} else {
								res, err = s.Search(ctx, zq, opts)
							}
						})
						if p != nil {
							return nil, "panic"
						}
						if err != nil {
							return nil, "error:" + err.Error()
						}
						return res, "ok"
					}
					// Search
					res, outcome := search(&zoekt.SearchOptions{ChunkMatches: rng.Intn(2) == 0})
					if res != nil {
						emit("search", outcome, c23FromResult(res), c.Files(l.idx, res, corpus.DetailFiles))
					} else {
						emit("search", outcome, nil, nil)
					}
					// the same search under match-count and display limits (other paths through the document
					// loop: skipping the rest of a repository, stopping early): nothing may leak either
					for _, lo := range []zoekt.SearchOptions{
						{ShardRepoMaxMatchCount: 1}, {ShardRepoMaxMatchCount: 2, ChunkMatches: true}, {ShardMaxMatchCount: 1},
						{TotalMaxMatchCount: 1}, {MaxDocDisplayCount: 1}, {ShardRepoMaxMatchCount: 1, ShardMaxMatchCount: 3},
					} {
						if rng.Intn(2) == 0 {
							continue
						}
						o := lo
						if res, outcome := search(&o); res != nil {
							emit("limited", outcome, c23FromResult(res), nil)
						} else if outcome != "ok" {
							emit("limited", outcome, nil, nil)
						}
					}
					// StreamSearch: every streamed event separately
					if kind == "dir" {
						p := verifkit.Catch(func() {
							err := s.StreamSearch(ctx, zq, &zoekt.SearchOptions{}, zoekt.SenderFunc(func(ev *zoekt.SearchResult) {
								emit("stream", "ok", c23FromResult(ev), nil)
							}))
							if err != nil {
								emit("stream", "error:"+err.Error(), nil, nil)
							}
						})
						if p != nil {
							emit("stream", "panic", nil, nil)
						}
					}
					// List, both field modes
					for _, field := range []zoekt.RepoListField{zoekt.RepoListFieldRepos, zoekt.RepoListFieldReposMap} {
						var rl *zoekt.RepoList
						var err error
						p := verifkit.Catch(func() {
							if kind == "shard" {
								rl, err = l.shards[shard].List(ctx, zq, &zoekt.ListOptions{Field: field})
							} else {
								rl, err = s.List(ctx, zq, &zoekt.ListOptions{Field: field})
							}
						})
						switch {
						case p != nil:
							emit("list", "panic", nil, nil)
						case err != nil:
							emit("list", fmt.Sprint("error:", err), nil, nil)
						default:
							n := &c23Names{}
							for _, r := range rl.Repos {
								n.add("List.Repos", r.Repository.Name)
								n.ids = append(n.ids, r.Repository.ID)
								for _, sr := range r.Repository.SubRepoMap {
									n.add("List.SubRepoMap", sr.Name)
								}
							}
							for id := range rl.ReposMap {
								n.ids = append(n.ids, id)
							}
							sort.Slice(n.ids, func(i, j int) bool { return n.ids[i] < n.ids[j] })
							emit("list", "ok", n, nil)
						}
					}
				}
			}
		}
		l.Close()
	}
}
