//go:build verif && linux

package search

// C19 (slow start-up load): one batch of loader.load that runs for more than five seconds publishes
// what it has loaded so far and keeps loading.  After the batch, garbage collection and finalizers,
// every shard in the loaded set must still be mapped (and be the file on disk).  The batch is kept
// open by FIFOs named like shards: open() blocks until the driver opens the other end.

import (
	"fmt"
	"os"
	"path/filepath"
	"runtime"
	"sort"
	"syscall"
	"testing"
	"time"

	"github.com/sourcegraph/zoekt/internal/verifkit"
)

func TestVerif_C19_SlowLoad(t *testing.T) {
	tr := c19Open(t)
	defer tr.f.Close()
	work := os.Getenv("VERIF_WORK")
	if work == "" {
		work = t.TempDir()
	}
	base, err := os.MkdirTemp(work, "c19slow")
	if err != nil {
		t.Fatal(err)
	}
	defer os.RemoveAll(base)
	prev := runtime.GOMAXPROCS(2) // the loader starts GOMAXPROCS loads at a time
	defer runtime.GOMAXPROCS(prev)
	rounds := verifkit.Pick(2, 6)
	for round := 0; round < rounds; round++ {
		e := c19NewEnv(t, base, false)
		want := []string{}
		for i, r := range []string{"a", "b", "c"} {
			e.write(c19Key{r, 16}, 1+round, i+1)
			want = append(want, filepath.Base(e.path(c19Key{r, 16})))
		}
		var fifos []string
		for i := 0; i < 3; i++ {
			// names that sort between and around the real ones
			p := filepath.Join(e.dir, fmt.Sprintf("%s%d_v16.00000.zoekt", []string{"0pipe", "bb", "zpipe"}[i], round))
			if err := syscall.Mkfifo(p, 0o600); err != nil {
				t.Fatal(err)
			}
			fifos = append(fifos, p)
		}
		scanned := make(chan error, 1)
		go func() { scanned <- e.dw.scan() }()
		time.Sleep(5500 * time.Millisecond)
		for _, p := range fifos {
			go func(p string) { // pairs up with the loader's open(), then end of file at once
				if f, err := os.OpenFile(p, os.O_WRONLY, 0); err == nil {
					f.Close()
				}
			}(p)
		}
		note := ""
		select {
		case err := <-scanned:
			if err != nil {
				note = err.Error()
			}
		case <-time.After(c19Wait):
			t.Fatalf("c19 slow load: the scan did not return (inconclusive)")
		}
		for _, p := range fifos {
			os.Remove(p)
		}
		if err := e.dw.scan(); err != nil {
			note += " " + err.Error()
		}
		c19GC(t)
		maps := c19Maps(t)
		loaded, unmapped := []string{}, []string{}
		e.ss.mu.Lock()
		for key, rs := range e.ss.shards {
			loaded = append(loaded, filepath.Base(key))
			if in := e.project(rs, maps); !in.Mapped {
				unmapped = append(unmapped, filepath.Base(key))
			}
		}
		e.ss.mu.Unlock()
		sort.Strings(loaded)
		sort.Strings(unmapped)
		sort.Strings(want)
		tr.Emit(c19M{"ev": "slowload", "round": 900000 + round, "loaded": loaded, "unmapped": unmapped, "want": want, "note": note})
		if len(unmapped) == 0 {
			e.destroy() // (closing an already unmapped shard again is not what is judged here)
		}
	}
	tr.Emit(c19M{"ev": "end", "scripts": rounds})
}
