//go:build verif

package search_test

// C07: query parsing and API query decoding never crash; every parsed query can be searched,
// listed, printed and converted to the wire format without panicking.
//
//   TestVerif_C07_Batch   renders the inputs (TLC scripts of spec/sys/QueryLang.tla: grammar
//                         derivations, every field with every value class, every token sequence
//                         over the damage alphabet, JSON request shapes; plus seeded random byte
//                         strings and very long / deeply nested inputs), runs them in supervised
//                         child processes and writes one "input" event and one "op" event per
//                         operation for Trace_Total.tla
//   TestVerif_C07_Child   the child: query.Parse, then for a parsed query String(), QToProto,
//                         QFromProto, Search and List on a directory searcher and on a bare shard
//                         searcher; the JSON handlers of internal/json through httptest.
//
// Binding: every operation runs under recover (outcome "panic" + the zoekt function that
// panicked) and a watchdog on process CPU time and memory (outcome "hang" / "oom": positive
// observations independent of machine load); a contained shard crash (Stats.Crashes) is outcome
// "crash".  The child journals "B <input> <op>" before an operation and the result after it, and
// writes the input to VERIF_WORK/c07_current_<worker>, so a process that dies is attributed to
// the operation in flight (outcome "died").  The driver decides nothing.

import (
	"bufio"
	"bytes"
	"context"
	"encoding/hex"
	"encoding/json"
	"fmt"
	"io"
	"log"
	"math/rand"
	"net/http"
	"net/http/httptest"
	"os"
	"os/exec"
	"path/filepath"
	"runtime"
	"runtime/metrics"
	"sort"
	"strconv"
	"strings"
	"sync"
	"syscall"
	"testing"
	"time"

	"github.com/sourcegraph/zoekt"
	webserverv1 "github.com/sourcegraph/zoekt/grpc/protos/zoekt/webserver/v1"
	"github.com/sourcegraph/zoekt/index"
	zjson "github.com/sourcegraph/zoekt/internal/json"
	"github.com/sourcegraph/zoekt/internal/verifkit"
	"github.com/sourcegraph/zoekt/internal/verifkit/corpus"
	"github.com/sourcegraph/zoekt/query"
	"github.com/sourcegraph/zoekt/search"
)

// c07Input is one input. Kind: "query" (S = query string), "json-search" / "json-list" (S =
// request body), "proto" (S = name of a malformed wire query).
type c07Input struct {
	I      int    `json:"i"`
	Kind   string `json:"kind"`
	Family string `json:"family"`
	Class  string `json:"class"`
	WF     bool   `json:"wf"`
	Hex    string `json:"hex"` // the exact bytes
}

func (in *c07Input) bytes() []byte { b, _ := hex.DecodeString(in.Hex); return b }

type c07Result struct {
	I      int    `json:"i"`
	Op     string `json:"op"`
	Out    string `json:"out"`
	Site   string `json:"site"`
	Msg    string `json:"msg"`
	Status int    `json:"status"`
}

// ---------------------------------------------------------------- inputs

type c07Script struct {
	Toks   []string          `json:"toks"`
	WF     bool              `json:"wf"`
	Family string            `json:"family"`
	Shape  map[string]string `json:"shape"`
}

// two spellings of a token sequence: blanks everywhere / as tight as the tokens allow
func c07Render(toks []string) []string {
	spaced := strings.Join(toks, " ")
	var sb strings.Builder
	for i, t := range toks {
		if i > 0 {
			prev := toks[i-1]
			if !(prev == "-" || prev == "(" || t == ")") {
				sb.WriteByte(' ')
			}
		}
		sb.WriteString(t)
	}
	tight := sb.String()
	if tight == spaced {
		return []string{spaced}
	}
	return []string{spaced, tight}
}

var c07JSONQ = map[string]string{
	"absent": "", "null": `"Q":null`, "empty": `"Q":""`, "word": `"Q":"abc"`, "field": `"Q":"f:go lang:go -case:no (a or b)"`,
	"broken": `"Q":"(\"x"`, "number": `"Q":5`, "array": `"Q":["a"]`, "object": `"Q":{"a":1}`,
	"long": `"Q":"` + strings.Repeat("ab ", 3000) + `"`,
}
var c07JSONIDs = map[string]string{
	"absent": "", "null": `"RepoIDs":null`, "empty": `"RepoIDs":[]`, "one": `"RepoIDs":[10]`, "many": `"RepoIDs":[10,11,12,999,0]`,
	"string": `"RepoIDs":"10"`, "negative": `"RepoIDs":[-1]`, "overflow": `"RepoIDs":[4294967296]`, "object": `"RepoIDs":{"a":[1]}`,
	"nested": `"RepoIDs":[[1],[2]]`,
}
var c07JSONOpts = map[string]string{
	"absent": "", "null": `"Opts":null`, "empty": `"Opts":{}`, "display": `"Opts":{"MaxDocDisplayCount":5}`,
	"negative": `"Opts":{"ShardMaxMatchCount":-1,"TotalMaxMatchCount":-7,"MaxDocDisplayCount":-3,"MaxMatchDisplayCount":-2,"NumContextLines":-5}`,
	"hugectx":  `"Opts":{"NumContextLines":1000000000,"ChunkMatches":true,"Whole":true}`,
	"string":   `"Opts":"x"`, "array": `"Opts":[1]`, "walltime": `"Opts":{"MaxWallTime":1}`,
	"wrongtype": `"Opts":{"TotalMaxMatchCount":"a"}`, "estimate": `"Opts":{"EstimateDocCount":true}`,
	"bm25":    `"Opts":{"UseBM25Scoring":true,"ChunkMatches":true,"DebugScore":true}`,
	"chunk":   `"Opts":{"ChunkMatches":true,"NumContextLines":2,"MaxDocDisplayCount":1,"MaxMatchDisplayCount":1}`,
	"unknown": `"Opts":{"NoSuchField":1,"Field":7}`,
}
var c07JSONListOpts = map[string]string{
	"display": `"Opts":{"Field":2}`, "negative": `"Opts":{"Field":-1}`, "hugectx": `"Opts":{"Field":1000000000}`,
	"walltime": `"Opts":{"Field":1}`, "wrongtype": `"Opts":{"Field":"a"}`, "estimate": `"Opts":{"Field":0}`,
	"bm25": `"Opts":{"Field":3}`, "chunk": `"Opts":{"Field":2.5}`,
}

func c07Body(shape map[string]string) string {
	opts := c07JSONOpts[shape["opts"]]
	if shape["handler"] == "list" {
		if o, ok := c07JSONListOpts[shape["opts"]]; ok {
			opts = o
		}
	}
	var parts []string
	for _, p := range []string{c07JSONQ[shape["q"]], c07JSONIDs[shape["ids"]], opts} {
		if p != "" {
			parts = append(parts, p)
		}
	}
	return "{" + strings.Join(parts, ",") + "}"
}

// bodies that are not even the envelope
var c07BadBodies = []string{"", "{", "null", "[]", "5", `"x"`, `{"Q":"a"`, `{"Q":"a"}{"Q":"b"}`, `{"Q":"a"} trailing`, `{"q":"lower"}`,
	"\xff\xfe", `{"Q":"\ud800"}`, `{"Q":"a","Q":"b"}`, strings.Repeat("[", 10000), `{"Q":"` + strings.Repeat("(", 2000) + `"}`,
	`{"Q":"a\u0000b"}`, `{"Opts":{"MaxWallTime":"1s"},"Q":"a"}`, `{"Q":"type:repo a"}`, `{"Q":"-case:yes a"}`, `{"Q":"sym:a lang:go"}`}

var c07Bytes = []string{"(", ")", "\"", "\\", "-", " ", "\t", "\n", ":", "|", "*", "+", "?", "[", "]", "{", "}", "^", "$", ".", "a", "b", "A",
	"o", "r", "\x00", "\xff", "\xc0", "\x80", "\xe2\x82", "é", "中", "😀", "or", "f:", "r:", "case:", "type:", "sym:", "lang:", "b:",
	"meta.", "archived:", "yes", "no", "file", "repo", "0", "9", ",", "/", "(?i)", "\\b", "\\pL", "{2,}", "(?P<x>", "[^"}

func c07RandomStrings(n int) []string {
	var res []string
	for i := 0; i < n; i++ {
		rng := verifkit.Rng(int64(3_000_000 + i))
		var sb strings.Builder
		if rng.Intn(4) == 0 {
			for k, l := 0, rng.Intn(24); k < l; k++ {
				sb.WriteByte(byte(rng.Intn(256)))
			}
		} else {
			for k, l := 0, 1+rng.Intn(12); k < l; k++ {
				sb.WriteString(c07Bytes[rng.Intn(len(c07Bytes))])
			}
		}
		res = append(res, sb.String())
	}
	return res
}

// one-byte damage of a well-formed string
func c07Mutate(rng *rand.Rand, s string) string {
	b := []byte(s)
	if len(b) == 0 {
		return "\""
	}
	k := rng.Intn(len(b))
	switch rng.Intn(4) {
	case 0:
		return string(append(b[:k:k], b[k+1:]...))
	case 1:
		return string(append(append(b[:k:k], b[k]), b[k:]...))
	case 2:
		const repl = "()\"\\- :\x00\xff"
		b[k] = repl[rng.Intn(len(repl))]
		return string(b)
	default:
		if k+1 < len(b) {
			b[k], b[k+1] = b[k+1], b[k]
		}
		return string(b)
	}
}

func c07Long() []string {
	n := 20000 // flat inputs; evaluating a query costs time linear in its size, keep that far below the watchdog
	d := 2500  // nested inputs: printing a tree is quadratic in its depth, keep that far below the watchdog
	var graded []string
	for _, k := range []int{10, 14, 18} {
		graded = append(graded, strings.Repeat("( ", k)+"a"+strings.Repeat(" )", k), strings.Repeat("-( ", k)+"a"+strings.Repeat(" )", k),
			strings.Repeat("( a or ", k)+"b"+strings.Repeat(" )", k), strings.Repeat("(", k)+"a b"+strings.Repeat(")", k))
	}
	return append(graded,
		strings.Repeat("a", n), "f:"+strings.Repeat("b", n), strings.Repeat("a ", n/4), strings.Repeat("-", d)+"a",
		strings.Repeat("( ", d)+"a"+strings.Repeat(" )", d), strings.Repeat("(", n/4), strings.Repeat(")", n/4),
		strings.Repeat("a or ", n/8)+"a", "\""+strings.Repeat("\\\"", n/8)+"\"", strings.Repeat("case:yes ", n/16),
		strings.Repeat("(a", 900)+strings.Repeat(")", 900), strings.Repeat("(a", 1100)+strings.Repeat(")", 1100),
		strings.Repeat("a*", 600), "("+strings.Repeat("a|", n/8)+"a)", "a{1000}", "(a{1000}){1000}", "a{1001}", "["+strings.Repeat("a-z", 2000)+"]",
		strings.Repeat("type:repo ", 50)+"a", strings.Repeat("-( ", d)+"a"+strings.Repeat(" )", d), "sym:"+strings.Repeat("a", n),
		strings.Repeat("\xff", n/4), "lang:"+strings.Repeat("g", n), "meta."+strings.Repeat("k", n)+":v", "b:"+strings.Repeat("é", n/4),
	)
}

var c07Protos = []string{"nil", "empty", "not-nil-child", "and-nil-child", "or-empty", "type-nil-child", "type-bad-kind", "boost-nil-child",
	"symbol-nil", "regexp-bad", "repo-bad", "reporegexp-bad", "meta-bad", "repoids-garbage", "branchesrepos-garbage", "branchesrepos-nil-entry",
	"reposet-nil", "filenameset-nil", "rawconfig-unknown-flag", "deep-not"}

func c07Proto(name string) *webserverv1.Q {
	w := func(q any) *webserverv1.Q {
		switch v := q.(type) {
		case *webserverv1.Not:
			return &webserverv1.Q{Query: &webserverv1.Q_Not{Not: v}}
		case *webserverv1.And:
			return &webserverv1.Q{Query: &webserverv1.Q_And{And: v}}
		case *webserverv1.Or:
			return &webserverv1.Q{Query: &webserverv1.Q_Or{Or: v}}
		case *webserverv1.Type:
			return &webserverv1.Q{Query: &webserverv1.Q_Type{Type: v}}
		case *webserverv1.Boost:
			return &webserverv1.Q{Query: &webserverv1.Q_Boost{Boost: v}}
		case *webserverv1.Symbol:
			return &webserverv1.Q{Query: &webserverv1.Q_Symbol{Symbol: v}}
		case *webserverv1.Regexp:
			return &webserverv1.Q{Query: &webserverv1.Q_Regexp{Regexp: v}}
		case *webserverv1.Repo:
			return &webserverv1.Q{Query: &webserverv1.Q_Repo{Repo: v}}
		case *webserverv1.RepoRegexp:
			return &webserverv1.Q{Query: &webserverv1.Q_RepoRegexp{RepoRegexp: v}}
		case *webserverv1.Meta:
			return &webserverv1.Q{Query: &webserverv1.Q_Meta{Meta: v}}
		case *webserverv1.RepoIds:
			return &webserverv1.Q{Query: &webserverv1.Q_RepoIds{RepoIds: v}}
		case *webserverv1.BranchesRepos:
			return &webserverv1.Q{Query: &webserverv1.Q_BranchesRepos{BranchesRepos: v}}
		case *webserverv1.RepoSet:
			return &webserverv1.Q{Query: &webserverv1.Q_RepoSet{RepoSet: v}}
		case *webserverv1.FileNameSet:
			return &webserverv1.Q{Query: &webserverv1.Q_FileNameSet{FileNameSet: v}}
		case *webserverv1.RawConfig:
			return &webserverv1.Q{Query: &webserverv1.Q_RawConfig{RawConfig: v}}
		}
		return nil
	}
	sub := &webserverv1.Q{Query: &webserverv1.Q_Const{Const: true}}
	switch name {
	case "nil":
		return nil
	case "empty":
		return &webserverv1.Q{}
	case "not-nil-child":
		return w(&webserverv1.Not{})
	case "and-nil-child":
		return w(&webserverv1.And{Children: []*webserverv1.Q{sub, nil}})
	case "or-empty":
		return w(&webserverv1.Or{})
	case "type-nil-child":
		return w(&webserverv1.Type{Type: webserverv1.Type_KIND_REPO})
	case "type-bad-kind":
		return w(&webserverv1.Type{Type: 77, Child: sub})
	case "boost-nil-child":
		return w(&webserverv1.Boost{Boost: 2})
	case "symbol-nil":
		return w(&webserverv1.Symbol{})
	case "regexp-bad":
		return w(&webserverv1.Regexp{Regexp: "(", Content: true})
	case "repo-bad":
		return w(&webserverv1.Repo{Regexp: "["})
	case "reporegexp-bad":
		return w(&webserverv1.RepoRegexp{Regexp: "*"})
	case "meta-bad":
		return w(&webserverv1.Meta{Key: "k", Value: "("})
	case "repoids-garbage":
		return w(&webserverv1.RepoIds{Repos: []byte{1, 2, 3, 255, 255, 255, 255, 9}})
	case "branchesrepos-garbage":
		return w(&webserverv1.BranchesRepos{List: []*webserverv1.BranchRepos{{Branch: "b", Repos: []byte{0xff, 0xff, 0xff}}}})
	case "branchesrepos-nil-entry":
		return w(&webserverv1.BranchesRepos{List: []*webserverv1.BranchRepos{nil}})
	case "reposet-nil":
		return w(&webserverv1.RepoSet{})
	case "filenameset-nil":
		return w(&webserverv1.FileNameSet{})
	case "rawconfig-unknown-flag":
		return w(&webserverv1.RawConfig{Flags: []webserverv1.RawConfig_Flag{99, -1}})
	case "deep-not":
		q := sub
		for i := 0; i < 2000; i++ {
			q = w(&webserverv1.Not{Child: q})
		}
		return q
	}
	return nil
}

func c07Inputs(t *testing.T) []c07Input {
	var res []c07Input
	seen := map[string]bool{}
	add := func(kind, family, class string, wf bool, s string) {
		k := kind + "\x00" + s
		if seen[k] {
			return
		}
		seen[k] = true
		res = append(res, c07Input{I: len(res), Kind: kind, Family: family, Class: class, WF: wf, Hex: hex.EncodeToString([]byte(s))})
	}
	var wellFormed []string
	for _, raw := range verifkit.ReadScripts(t) {
		var sc c07Script
		if err := json.Unmarshal(raw, &sc); err != nil {
			t.Fatal(err)
		}
		if sc.Family == "json" {
			add("json-"+sc.Shape["handler"], "json", sc.Shape["q"]+"/"+sc.Shape["ids"]+"/"+sc.Shape["opts"], false, c07Body(sc.Shape))
			continue
		}
		for k, s := range c07Render(sc.Toks) {
			if k == 1 && len(sc.Toks) > 4 && sc.Family == "damage" {
				continue // the longest damaged sequences (thorough tier) in one spelling only
			}
			add("query", sc.Family, []string{"spaced", "tight"}[k], sc.WF, s)
			if sc.WF && len(wellFormed) < 4000 {
				wellFormed = append(wellFormed, s)
			}
		}
	}
	for _, b := range c07BadBodies {
		add("json-search", "json-envelope", "bad", false, b)
		add("json-list", "json-envelope", "bad", false, b)
	}
	for _, p := range c07Protos {
		add("proto", "proto", p, false, p)
	}
	for _, s := range c07RandomStrings(verifkit.EnvInt("C07_RANDOM", verifkit.Pick(2000, 20000))) {
		add("query", "random", "bytes", false, s)
	}
	if len(wellFormed) > 0 {
		for i, n := 0, verifkit.EnvInt("C07_MUTANTS", verifkit.Pick(1500, 10000)); i < n; i++ {
			rng := verifkit.Rng(int64(4_000_000 + i))
			add("query", "random", "mutant", false, c07Mutate(rng, wellFormed[rng.Intn(len(wellFormed))]))
		}
	}
	for _, s := range c07Long() {
		add("query", "long", "long", false, s)
	}
	return res
}

// ---------------------------------------------------------------- parent

func TestVerif_C07_Batch(t *testing.T) {
	tr := verifkit.Open(t)
	defer tr.Close()
	inputs := c07Inputs(t)
	work := os.Getenv("VERIF_WORK")
	if work == "" {
		work = t.TempDir()
	}
	inPath := filepath.Join(work, "c07_child_in.ndjson")
	f, err := os.Create(inPath)
	if err != nil {
		t.Fatal(err)
	}
	w := bufio.NewWriter(f)
	for _, in := range inputs {
		b, _ := json.Marshal(in)
		w.Write(b)
		w.WriteByte('\n')
	}
	w.Flush()
	f.Close()

	// the corpus is built once; the children load it
	corpusDir := filepath.Join(work, "c07_corpus")
	if err := os.MkdirAll(corpusDir, 0o755); err != nil {
		t.Fatal(err)
	}
	c := c07Corpus()
	if _, err := c.Materialise(corpusDir); err != nil {
		t.Fatalf("materialise: %v", err)
	}

	nw := verifkit.EnvInt("C07_WORKERS", 4)
	results := make([][]c07Result, len(inputs))
	var mu sync.Mutex
	var wg sync.WaitGroup
	var firstErr error
	children := 0
	for wk := 0; wk < nw; wk++ {
		wg.Add(1)
		go func(wk int) {
			defer wg.Done()
			from := wk
			for run := 0; from < len(inputs); run++ {
				outPath := fmt.Sprintf("%s/c07_child_%d_%d.out", work, wk, run)
				cmd := exec.Command(os.Args[0], "-test.run", "^TestVerif_C07_Child$", "-test.count=1", "-test.timeout", "0")
				cmd.Env = append(os.Environ(), "C07_CHILD_IN="+inPath, "C07_CHILD_OUT="+outPath, "C07_CORPUS="+corpusDir,
					"C07_CHILD_FROM="+strconv.Itoa(from), "C07_CHILD_STRIDE="+strconv.Itoa(nw), "C07_CHILD_WORKER="+strconv.Itoa(wk))
				var stderr bytes.Buffer
				cmd.Stdout = &stderr
				cmd.Stderr = &stderr
				runErr := cmd.Run()
				lastI, lastOp, ended, got := c07ReadChild(outPath)
				mu.Lock()
				children++
				for i, rs := range got {
					if i < len(results) {
						results[i] = rs
					}
				}
				mu.Unlock()
				if ended {
					break
				}
				if lastI < 0 {
					mu.Lock()
					if firstErr == nil {
						firstErr = fmt.Errorf("child made no progress (from %d): %v\n%s", from, runErr, c07Tail(stderr.String(), 3000))
					}
					mu.Unlock()
					return
				}
				reported := false
				for _, r := range got[lastI] {
					if r.Op == lastOp {
						reported = true // the watchdog reported hang / oom and ended the process
					}
				}
				if !reported {
					// the process died inside operation lastOp of input lastI
					out := "died"
					se := stderr.String()
					if strings.Contains(se, "out of memory") || strings.Contains(se, "cannot allocate memory") {
						out = "oom"
					}
					if strings.Contains(se, "stack overflow") || strings.Contains(se, "goroutine stack exceeds") {
						out = "stackoverflow"
					}
					mu.Lock()
					results[lastI] = append(results[lastI], c07Result{I: lastI, Op: lastOp, Out: out, Site: c07FatalSite(se), Msg: c07Fatal(se)})
					mu.Unlock()
				}
				from = lastI + nw
			}
		}(wk)
	}
	wg.Wait()
	if firstErr != nil {
		t.Fatal(firstErr)
	}
	nops := 0
	for i, in := range inputs {
		rs := results[i]
		if rs == nil {
			t.Fatalf("no result for input %d", i)
		}
		b := in.bytes()
		text := string(b)
		if len(text) > 300 {
			text = text[:300]
		}
		hx := in.Hex
		if len(hx) > 600 {
			hx = hx[:600]
		}
		tr.Emit(verifkit.M{"ev": "input", "id": i, "kind": in.Kind, "family": in.Family, "class": in.Class, "wf": in.WF, "n": len(b),
			"text": c07Clean(text), "hex": hx, "nops": len(rs)})
		for k, r := range rs {
			nops++
			tr.Emit(verifkit.M{"ev": "op", "id": i, "op": r.Op, "outcome": r.Out, "site": r.Site, "msg": c07Tail(c07Clean(r.Msg), 400),
				"status": r.Status, "back": k + 1})
		}
	}
	t.Logf("c07: %d inputs, %d operations, %d child processes", len(inputs), nops, children)
}

// c07Clean makes a text safe for the line-oriented trace tools: valid UTF-8 and none of the
// Unicode line separators that JSON leaves unescaped (the exact bytes are in the hex field).
func c07Clean(s string) string {
	return strings.Map(func(r rune) rune {
		if r == 0x85 || r == 0x2028 || r == 0x2029 {
			return 0xFFFD
		}
		return r
	}, strings.ToValidUTF8(s, "\uFFFD"))
}

func c07Tail(s string, n int) string {
	if len(s) > n {
		return s[len(s)-n:]
	}
	return s
}

func c07Fatal(se string) string {
	for _, l := range strings.Split(se, "\n") {
		if strings.HasPrefix(l, "fatal error:") || strings.HasPrefix(l, "panic:") || strings.HasPrefix(l, "runtime:") {
			return l
		}
	}
	return c07Tail(se, 600)
}

// first zoekt function in a fatal stack dump
func c07FatalSite(se string) string {
	for _, l := range strings.Split(se, "\n") {
		if strings.HasPrefix(l, "github.com/sourcegraph/zoekt/") && !strings.Contains(l, "c07") && !strings.Contains(l, "verifkit") {
			l = strings.TrimPrefix(l, "github.com/sourcegraph/zoekt/")
			if k := strings.LastIndex(l, "("); k > 0 {
				l = l[:k]
			}
			return l
		}
	}
	return "?"
}

func c07ReadChild(path string) (lastI int, lastOp string, ended bool, got map[int][]c07Result) {
	lastI, got = -1, map[int][]c07Result{}
	f, err := os.Open(path)
	if err != nil {
		return
	}
	defer f.Close()
	sc := bufio.NewScanner(f)
	sc.Buffer(make([]byte, 1<<20), 1<<28)
	for sc.Scan() {
		l := sc.Text()
		switch {
		case strings.HasPrefix(l, "B "):
			parts := strings.SplitN(l[2:], " ", 2)
			if n, err := strconv.Atoi(parts[0]); err == nil && len(parts) == 2 {
				if parts[1] == "end" {
					ended = true
					continue
				}
				lastI, lastOp = n, parts[1]
				if _, ok := got[n]; !ok {
					got[n] = []c07Result{}
				}
			}
		case strings.HasPrefix(l, "R "):
			var r c07Result
			if json.Unmarshal([]byte(l[2:]), &r) == nil && r.Op != "end" {
				got[r.I] = append(got[r.I], r)
			}
		}
	}
	return
}

// ---------------------------------------------------------------- child

func c07Corpus() *corpus.Corpus {
	c := &corpus.Corpus{ID: 1}
	c.Repos = []corpus.Repo{
		{Name: "org/alpha", ID: 10, Branches: []string{"HEAD", "main"}, Public: true, Meta: map[string]string{"k": "v", "license": "MIT"}, Shard: 0},
		{Name: "org/beta", ID: 11, Branches: []string{"main"}, Fork: true, Shard: 1},
		{Name: "repo/gamma", ID: 12, Branches: []string{"dev", "main"}, Archived: true, Meta: map[string]string{"k": "w"}, Shard: 1},
	}
	docs := []struct {
		repo          int
		name, content string
		lang          string
	}{
		{0, "a.go", "package foo\n\nfunc Foo() { a := b }\nx a b\n", "Go"},
		{0, "dir/x.txt", "hello abc world\nfoo bar\n", "Text"},
		{1, "main.c", "int main() { return abc; }\n", "C"},
		{1, "README", "a or b\n(yes) \"no\"\n", "Text"},
		{2, "x/y/Z.md", "# Foo\nfoo é中 file repo\n", "Markdown"},
		{2, "a.go", "package a\nvar a = 1\n", "Go"},
	}
	for _, d := range docs {
		doc := corpus.Doc{Repo: d.repo, Name: d.name, Content: d.content, Branches: []int{0}, Lang: d.lang}
		if k := strings.Index(d.content, "Foo"); k >= 0 {
			doc.Syms = [][2]int{{len([]rune(d.content[:k])), len([]rune(d.content[:k])) + 3}}
		}
		c.Docs = append(c.Docs, doc)
	}
	return c
}

func c07CPU() time.Duration {
	var ru syscall.Rusage
	syscall.Getrusage(syscall.RUSAGE_SELF, &ru)
	return time.Duration(ru.Utime.Nano() + ru.Stime.Nano())
}

func c07Mem() uint64 {
	s := []metrics.Sample{{Name: "/memory/classes/total:bytes"}}
	metrics.Read(s)
	return s[0].Value.Uint64()
}

// the zoekt function that panicked (called from the deferred recover)
func c07Site() string {
	pcs := make([]uintptr, 96)
	n := runtime.Callers(3, pcs)
	frames := runtime.CallersFrames(pcs[:n])
	for {
		f, more := frames.Next()
		if strings.HasPrefix(f.Function, "github.com/sourcegraph/zoekt") && !strings.Contains(f.File, "zz_verif_") &&
			!strings.Contains(f.Function, "verifkit") {
			return strings.TrimPrefix(f.Function, "github.com/sourcegraph/zoekt/")
		}
		if !more {
			break
		}
	}
	return "?"
}

type c07Child struct {
	out      *os.File
	cur      string
	dir      zoekt.Streamer
	shard    zoekt.Searcher
	handler  http.Handler
	cpuLimit time.Duration
	memLimit uint64
	size     int // bytes of the input being processed
}

// run executes one operation under recover and the watchdog and journals it.
// f returns (outcome, message, status).
func (c *c07Child) run(i int, op string, f func() (string, string, int)) c07Result {
	fmt.Fprintf(c.out, "B %d %s\n", i, op)
	cpuLimit := c.cpuLimit + time.Duration(c.size)*time.Millisecond // 10 s + 1 ms per input byte
	cpu0, mem0, t0 := c07CPU(), c07Mem(), time.Now()
	done := make(chan c07Result, 1)
	go func() {
		r := c07Result{I: i, Op: op}
		defer func() {
			if p := recover(); p != nil {
				r.Out, r.Site, r.Msg = "panic", c07Site(), c07Tail(fmt.Sprint(p), 300)
			}
			done <- r
		}()
		r.Out, r.Msg, r.Status = f()
	}()
	tick := time.NewTicker(25 * time.Millisecond)
	defer tick.Stop()
	for {
		select {
		case r := <-done:
			c.emit(r)
			return r
		case <-tick.C:
			verdict := ""
			if m := c07Mem(); m > mem0 && m-mem0 > c.memLimit {
				verdict = "oom"
			} else if c07CPU()-cpu0 > cpuLimit {
				verdict = "hang"
			} else if time.Since(t0) > 20*time.Minute {
				verdict = "stalled" // no CPU consumed: not a positive observation, the check reports it as inconclusive
			}
			if verdict != "" {
				c.emit(c07Result{I: i, Op: op, Out: verdict, Site: "?",
					Msg: fmt.Sprintf("cpu %v, memory +%d MB, wall %v", c07CPU()-cpu0, (c07Mem()-mem0)>>20, time.Since(t0).Round(time.Millisecond))})
				c.out.Close()
				os.Exit(3)
			}
		}
	}
}

func (c *c07Child) emit(r c07Result) {
	b, _ := json.Marshal(r)
	c.out.Write(append(append([]byte("R "), b...), '\n'))
}

func errOut(err error) (string, string, int) {
	if err != nil {
		return "error", c07Tail(err.Error(), 300), 0
	}
	return "ok", "", 0
}

func (c *c07Child) query(in *c07Input) {
	s := string(in.bytes())
	var q query.Q
	r := c.run(in.I, "parse", func() (string, string, int) {
		var err error
		q, err = query.Parse(s)
		if err == nil && q == nil {
			return "nilquery", "Parse returned neither a query nor an error", 0
		}
		return errOut(err)
	})
	if r.Out != "ok" {
		return
	}
	c.run(in.I, "print", func() (string, string, int) { return "ok", c07Tail(q.String(), 0), 0 })
	var p *webserverv1.Q
	r = c.run(in.I, "toProto", func() (string, string, int) { p = query.QToProto(q); return "ok", "", 0 })
	if r.Out == "ok" {
		c.run(in.I, "fromProto", func() (string, string, int) {
			q2, err := query.QFromProto(p)
			if err == nil && q2 == nil {
				return "nilquery", "", 0
			}
			return errOut(err)
		})
	}
	ctx := context.Background()
	search := func(s zoekt.Searcher, opts *zoekt.SearchOptions) func() (string, string, int) {
		return func() (string, string, int) {
			res, err := s.Search(ctx, q, opts)
			if err != nil {
				return errOut(err)
			}
			if res == nil {
				return "nilresult", "", 0
			}
			if res.Stats.Crashes > 0 {
				return "crash", fmt.Sprintf("Stats.Crashes = %d", res.Stats.Crashes), 0
			}
			return "ok", "", 0
		}
	}
	list := func(s zoekt.Searcher, opts *zoekt.ListOptions) func() (string, string, int) {
		return func() (string, string, int) {
			res, err := s.List(ctx, q, opts)
			if err != nil {
				return errOut(err)
			}
			if res == nil {
				return "nilresult", "", 0
			}
			if res.Crashes > 0 {
				return "crash", fmt.Sprintf("RepoList.Crashes = %d", res.Crashes), 0
			}
			return "ok", "", 0
		}
	}
	c.run(in.I, "search-dir", search(c.dir, &zoekt.SearchOptions{}))
	c.run(in.I, "search-shard", search(c.shard, &zoekt.SearchOptions{ChunkMatches: true, NumContextLines: 1}))
	c.run(in.I, "list-dir", list(c.dir, nil))
	c.run(in.I, "list-shard", list(c.shard, &zoekt.ListOptions{Field: zoekt.RepoListFieldReposMap}))
}

func (c *c07Child) json(in *c07Input) {
	path, op := "/search", "jsonSearch"
	if in.Kind == "json-list" {
		path, op = "/list", "jsonList"
	}
	c.run(in.I, op, func() (string, string, int) {
		req := httptest.NewRequest("POST", path, bytes.NewReader(in.bytes()))
		rec := httptest.NewRecorder()
		c.handler.ServeHTTP(rec, req)
		body, _ := io.ReadAll(rec.Result().Body)
		if !json.Valid(bytes.TrimSpace(body)) {
			return "badreply", c07Tail(string(body), 200), rec.Code
		}
		if rec.Code == 200 {
			var reply struct {
				Result *zoekt.SearchResult
				List   *zoekt.RepoList
			}
			if err := json.Unmarshal(body, &reply); err != nil {
				return "badreply", err.Error(), rec.Code
			}
			if reply.Result != nil && reply.Result.Stats.Crashes > 0 || reply.List != nil && reply.List.Crashes > 0 {
				return "crash", "Crashes > 0 in the reply", rec.Code
			}
			return "ok", "", rec.Code
		}
		return "error", c07Tail(string(body), 200), rec.Code
	})
}

func (c *c07Child) proto(in *c07Input) {
	c.run(in.I, "fromProto", func() (string, string, int) {
		q, err := query.QFromProto(c07Proto(string(in.bytes())))
		if err == nil && q == nil {
			return "nilquery", "", 0
		}
		if err == nil {
			_ = q.String()
		}
		return errOut(err)
	})
}

func TestVerif_C07_Child(t *testing.T) {
	inPath, outPath, corpusDir := os.Getenv("C07_CHILD_IN"), os.Getenv("C07_CHILD_OUT"), os.Getenv("C07_CORPUS")
	if inPath == "" || outPath == "" {
		t.Skip("child of TestVerif_C07_Batch")
	}
	log.SetOutput(io.Discard)
	from, stride := verifkit.EnvInt("C07_CHILD_FROM", 0), verifkit.EnvInt("C07_CHILD_STRIDE", 1)
	raw, err := os.ReadFile(inPath)
	if err != nil {
		t.Fatal(err)
	}
	var inputs []c07Input
	for _, l := range bytes.Split(raw, []byte("\n")) {
		if len(l) == 0 {
			continue
		}
		var in c07Input
		if err := json.Unmarshal(l, &in); err != nil {
			t.Fatal(err)
		}
		inputs = append(inputs, in)
	}
	out, err := os.OpenFile(outPath, os.O_CREATE|os.O_WRONLY|os.O_APPEND, 0o644)
	if err != nil {
		t.Fatal(err)
	}
	defer out.Close()

	dir, err := search.NewDirectorySearcher(corpusDir)
	if err != nil {
		t.Fatal(err)
	}
	defer dir.Close()
	shards, _ := filepath.Glob(filepath.Join(corpusDir, "compound-*.zoekt"))
	sort.Strings(shards)
	if len(shards) == 0 {
		t.Fatal("no compound shard in " + corpusDir)
	}
	f, err := os.Open(shards[0])
	if err != nil {
		t.Fatal(err)
	}
	inf, err := index.NewIndexFile(f)
	if err != nil {
		t.Fatal(err)
	}
	shard, err := index.NewSearcher(inf)
	if err != nil {
		t.Fatal(err)
	}
	defer shard.Close()
	// sanity: the searchers answer and are fully loaded (a loading searcher reports Crashes)
	for _, s := range []zoekt.Searcher{dir, shard} {
		res, err := s.Search(context.Background(), &query.Const{Value: true}, &zoekt.SearchOptions{})
		if err != nil || res.Stats.Crashes != 0 || len(res.Files) == 0 {
			t.Fatalf("searcher not usable: %v %+v", err, res)
		}
	}

	c := &c07Child{out: out, dir: dir, shard: shard, handler: zjson.JSONServer(dir),
		cur:      filepath.Join(filepath.Dir(outPath), "c07_current_"+os.Getenv("C07_CHILD_WORKER")),
		cpuLimit: time.Duration(verifkit.EnvInt("C07_CPU_S", 10)) * time.Second,
		memLimit: uint64(verifkit.EnvInt("C07_MEM_MB", 2048)) << 20}
	for i := from; i < len(inputs); i += stride {
		in := &inputs[i]
		// attribution of a hard crash or hang: the input being processed is on disk first
		os.WriteFile(c.cur, []byte(fmt.Sprintf("%d %s %s\n", in.I, in.Kind, in.Hex)), 0o644)
		c.size = len(in.Hex) / 2
		switch in.Kind {
		case "query":
			c.query(in)
		case "proto":
			c.proto(in)
		default:
			c.json(in)
		}
	}
	fmt.Fprintf(out, "B %d end\n", len(inputs))
	c.emit(c07Result{I: len(inputs), Op: "end", Out: "ok"})
}
