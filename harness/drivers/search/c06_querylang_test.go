//go:build verif

package search_test

// C06: query strings mean what doc/query_syntax.md says.
//
// The driver builds DERIVATIONS of the documented EBNF (skeletons enumerated by TLC from
// spec/sys/QueryLangGen.tla, seeded random deeper ones, one per field/value, and the classes that
// are candidate findings), fills the leaves with field/value material aimed at two fixed corpora
// (hits and near misses), renders every derivation in several spellings (alias vs full field
// name, quoted / escaped / bare values, extra blanks, redundant parentheses, -x vs -( x )), gives
// each string to the real query.Parse and searches every distinct parse result on a real
// directory searcher over both corpora.  It decides nothing: Trace_QueryLang.tla re-derives the
// string from the logged derivation (yield), computes Meaning(derivation) from the prose of the
// document and compares Answer(parsed) with Answer(Meaning) and with the files really returned.

import (
	"context"
	"encoding/json"
	"fmt"
	"math/rand"
	"regexp/syntax"
	"sort"
	"strings"
	"testing"
	"unicode"

	"github.com/sourcegraph/zoekt"
	"github.com/sourcegraph/zoekt/internal/verifkit"
	"github.com/sourcegraph/zoekt/internal/verifkit/corpus"
	"github.com/sourcegraph/zoekt/query"
)

// ---------------------------------------------------------------- corpora

func c06Syms(content string, words ...string) [][2]int {
	var res [][2]int
	rs := []rune(content)
	for _, w := range words {
		wr := []rune(w)
		for i := 0; i+len(wr) <= len(rs); i++ {
			if string(rs[i:i+len(wr)]) == w {
				res = append(res, [2]int{i, i + len(wr)})
				break
			}
		}
	}
	sort.Slice(res, func(i, j int) bool { return res[i][0] < res[j][0] })
	return res
}

func c06Doc(repo int, name, content string, br []int, lang string, syms ...string) corpus.Doc {
	return corpus.Doc{Repo: repo, Name: name, Content: content, Branches: br, Lang: lang, Syms: c06Syms(content, syms...)}
}

// Two fixed corpora.  Documents differ only in case, in file name vs content, in branch,
// language, repository flags, metadata, symbol vs plain occurrence, literal vs any character,
// one vs two blanks, line start vs text start.
func c06Corpora() []*corpus.Corpus {
	c1 := &corpus.Corpus{ID: 1, Repos: []corpus.Repo{
		{Name: "github.com/acme/foo", ID: 11, Branches: []string{"main", "dev"}, Public: true, Meta: map[string]string{"license": "MIT", "team": "search"}, Shard: 0},
		{Name: "github.com/acme/bar", ID: 12, Branches: []string{"dev", "main"}, Fork: true, Meta: map[string]string{"license": "Apache-2.0"}, Shard: 1},
		{Name: "gitlab.com/old/baz", ID: 13, Branches: []string{"main", "release/1"}, Archived: true, Public: true, Shard: 2},
		{Name: "example.org/x/foo-fork", ID: 14, Branches: []string{"main"}, Fork: true, Archived: true, Meta: map[string]string{"license": "MIT", "team": "infra", "owner": "a b"}, Shard: 3},
	}}
	c1.Docs = []corpus.Doc{
		c06Doc(0, "foo.go", "package foo\nfunc Foo() {}", []int{0, 1}, "Go", "Foo"),
		c06Doc(0, "bar.go", "package bar\nvar foo = 1", []int{0}, "Go", "foo"),
		c06Doc(0, "README.md", "Foo Bar docs", []int{1}, "Markdown"),
		c06Doc(0, "dir/util.py", "def get_bar(): pass", []int{0}, "Python", "get_bar"),
		c06Doc(0, "a b.txt", "a b", []int{0, 1}, "Text"),
		c06Doc(1, "Foo.go", "nothing here", []int{0}, "Go"),
		c06Doc(1, "main.c", "int foo_bar(void);", []int{1}, "C", "foo_bar"),
		c06Doc(1, "notes.md", "foo bar", []int{0, 1}, "Markdown"),
		c06Doc(1, "dir/x.py", "FOO = 'bar'", []int{1}, "Python", "FOO"),
		c06Doc(2, "fr1.txt", "École", []int{0}, "Text"),
		c06Doc(2, "fr2.txt", "école", []int{1}, "Text"),
		c06Doc(2, "dots.txt", "a.b", []int{0, 1}, "Text"),
		c06Doc(2, "dots2.txt", "axb", []int{0}, "Text"),
		c06Doc(2, "lines.txt", "bar\nfoo", []int{1}, "Text"),
		c06Doc(3, "quote.txt", `foo"bar`, []int{0}, "Text"),
		c06Doc(3, "colon.txt", "f:foo -foo (x)", []int{0}, "Text"),
		c06Doc(3, "foo/bar.go", "package bar", []int{0}, "Go"),
		c06Doc(3, "w1.txt", "FOOx", []int{0}, "Text"),
		c06Doc(3, "w2.txt", "fooy", []int{0}, "Text"),
	}
	c2 := &corpus.Corpus{ID: 2, Repos: []corpus.Repo{
		{Name: "github.com/other/foo", ID: 21, Branches: []string{"dev", "main"}, Archived: true, Meta: map[string]string{"license": "MIX", "team": "search"}, Shard: 0},
		{Name: "bitbucket.org/bar", ID: 22, Branches: []string{"main"}, Public: true, Fork: true, Meta: map[string]string{"license": "Apache-1.1", "owner": "ab"}, Shard: 1},
		{Name: "foo", ID: 23, Branches: []string{"release/1", "main", "dev"}, Public: true, Meta: map[string]string{"team": "platform"}, Shard: 2},
	}}
	c2.Docs = []corpus.Doc{
		c06Doc(0, "Foo.go", "package Foo\nfunc foo() {}", []int{0}, "Go", "foo"),
		c06Doc(0, "bar.txt", "foo Bar", []int{1}, "Text"),
		c06Doc(0, "BAR.md", "FOO BAR", []int{0, 1}, "Markdown"),
		c06Doc(0, "get.py", "def bar_get(): pass", []int{1}, "Python", "bar_get"),
		c06Doc(1, "ab.txt", "a  b", []int{0}, "Text"),
		c06Doc(1, "foo", "bar", []int{0}, "Text"),
		c06Doc(1, "bar", "foo", []int{0}, "Text"),
		c06Doc(1, "src/main.go", "func main() { Foo() }", []int{0}, "Go", "main"),
		c06Doc(1, "x.c", "foo.bar", []int{0}, "C"),
		c06Doc(2, "fr.txt", "ÉCOLE école", []int{0, 1}, "Text"),
		c06Doc(2, "fr3.txt", "Ecole", []int{2}, "Text"),
		c06Doc(2, "dot.txt", "a\nb", []int{1}, "Text"),
		c06Doc(2, "lines2.txt", "foo\nbar", []int{0}, "Text"),
		c06Doc(2, "q.txt", `foo\bar "x"`, []int{2}, "Text"),
		c06Doc(2, "paren.go", "f(foo)", []int{1}, "Go"),
		c06Doc(2, "w.txt", "foo_ FOO1", []int{0}, "Text"),
	}
	return []*corpus.Corpus{c1, c2}
}

// ---------------------------------------------------------------- material

type c06Mat struct {
	Src  string
	MF   string
	Tags []string
}

func c06M(xs ...string) []c06Mat {
	var r []c06Mat
	for _, x := range xs {
		r = append(r, c06Mat{Src: x})
	}
	return r
}

// Values per field: hits and near misses on the two corpora.  Text fields hold the pattern as the
// regular expression / text the user means; the spelling decides how it is written.
var c06Material = map[string][]c06Mat{
	"text": c06M("foo", "Foo", "FOO", "bar", "Bar", "foo bar", "Foo Bar", "a b", `a\.b`, "a.b", "package", "get_bar", "école",
		`foo"bar`, "f:foo", "fo+", "foo.*bar", "(foo|Bar)", "[fF]oo", "foo|Bar", `\bfoo\b`, "ba[rz]", "f.o", "x", "nosuch", "or",
		"-foo", `bar\(`, `foo\\bar`, "a  b", "main", "Foo\\(\\)", `\(x\)`),
	"content": c06M("foo", "Foo", "FOO", "bar", "foo bar", "Foo Bar", "a b", `a\.b`, "a.b", "package", `foo"bar`, "fo+", "foo.*bar",
		"(foo|Bar)", "[fF]oo", `\bfoo\b`, "f.o", "nosuch", "école", `\sBar`, "main", "a +b"),
	"file": c06M("foo", "Foo", `\.go$`, "^dir/", "a b", "README", "bar", "main", "x", `(foo|bar)\.go`, "[.]md$", "foo/bar", "^foo$", "FOO",
		`\.py$`, "BAR", "txt", "nosuch"),
	"repo":   c06M("acme", "foo$", `github\.com/acme`, "bar", "^gitlab", "old|bitbucket", "foo", "nosuch", "^foo$", "o.g/"),
	"branch": c06M("main", "dev", "HEAD", "release/1", "rel", "ma", "nosuch", "e"),
	"lang":   c06M("go", "Go", "GO", "golang", "python", "Python", "markdown", "c", "C", "js", "rust", "nosuch"),
	"sym":    c06M("Foo", "foo", "get_bar", "^get", "bar$", "Fo+", "FOO", "main", "ba", "foo_bar", "nosuch"),
	"meta": {{Src: "MIT", MF: "license"}, {Src: "Apache-.*", MF: "license"}, {Src: "^A", MF: "license"}, {Src: "MI.", MF: "license"},
		{Src: `1\.1$`, MF: "license"}, {Src: "search", MF: "team"}, {Src: "infra|search", MF: "team"}, {Src: "^s", MF: "team"},
		{Src: "a b", MF: "owner"}, {Src: "ab", MF: "owner"}, {Src: ".*", MF: "nokey"}, {Src: "x", MF: "nokey"}},
}

// classes that are candidate findings (each has its own tag -> its own signature) and therefore
// kept out of the main families
var c06Special = []struct {
	Field string
	Mat   c06Mat
}{
	{"text", c06Mat{Src: "École", Tags: []string{"upper-nonascii"}}},
	{"content", c06Mat{Src: "École", Tags: []string{"upper-nonascii"}}},
	{"content", c06Mat{Src: "Éc.le", Tags: []string{"upper-nonascii"}}},
	{"text", c06Mat{Src: `foo\w`, Tags: []string{"class-w"}}},
	{"content", c06Mat{Src: `\w+bar`, Tags: []string{"class-w"}}},
	{"file", c06Mat{Src: `\w\.md`, Tags: []string{"class-w"}}},
	{"text", c06Mat{Src: "(?i)foo", Tags: []string{"inline-i"}}},
	{"content", c06Mat{Src: "(?i)Foo", Tags: []string{"inline-i"}}},
	{"content", c06Mat{Src: "(?i)foo.*bar", Tags: []string{"inline-i"}}},
	{"text", c06Mat{Src: "^foo", Tags: []string{"anchor-content"}}},
	{"content", c06Mat{Src: "bar$", Tags: []string{"anchor-content"}}},
	{"content", c06Mat{Src: "^bar$", Tags: []string{"anchor-content"}}},
	{"regex", c06Mat{Src: "foo", Tags: []string{"regex-field"}}},
	{"regex", c06Mat{Src: "fo+", Tags: []string{"regex-field"}}},
	{"regex", c06Mat{Src: "Foo Bar", Tags: []string{"regex-field"}}},
	{"regex", c06Mat{Src: "main", Tags: []string{"regex-field"}}},
	{"text", c06Mat{Src: "", Tags: []string{"empty-text"}}},
	{"file", c06Mat{Src: "", Tags: []string{"empty-text"}}},
	{"content", c06Mat{Src: "", Tags: []string{"empty-text"}}},
}

var c06Keywords = map[string][]string{
	"case": {"yes", "no", "auto"}, "type": {"filematch", "filename", "file", "repo"},
	"archived": {"yes", "no"}, "fork": {"yes", "no"}, "public": {"yes", "no"},
}

var c06Prefix = map[string][]string{ // full name first, then aliases
	"file": {"file:", "f:"}, "content": {"content:", "c:"}, "repo": {"repo:", "r:"}, "branch": {"branch:", "b:"},
	"lang": {"lang:"}, "sym": {"sym:"}, "regex": {"regex:"}, "meta": {"meta."}, "case": {"case:"}, "type": {"type:", "t:"},
	"archived": {"archived:"}, "fork": {"fork:"}, "public": {"public:"},
}

var c06PatternField = map[string]bool{"text": true, "file": true, "content": true, "regex": true, "repo": true, "sym": true, "meta": true}

// ---------------------------------------------------------------- abstract derivations

// c06A is a derivation without spelling: K = q (Sub: conjunctions), c (Sub: expressions),
// g (group, Sub: one q), l (leaf).
type c06A struct {
	K     string
	Neg   bool
	Sub   []*c06A
	Field string // leaf: text file content regex repo branch lang sym meta case type archived fork public
	Mat   c06Mat
	KW    string
}

func c06Leaf(field string, m c06Mat) *c06A { return &c06A{K: "l", Field: field, Mat: m} }
func c06KW(field, kw string) *c06A         { return &c06A{K: "l", Field: field, KW: kw} }
func c06Q(conjs ...*c06A) *c06A            { return &c06A{K: "q", Sub: conjs} }
func c06C(items ...*c06A) *c06A            { return &c06A{K: "c", Sub: items} }
func c06G(q *c06A) *c06A                   { return &c06A{K: "g", Sub: []*c06A{q}} }
func c06Neg(a *c06A) *c06A                 { b := *a; b.Neg = true; return &b }
func c06One(items ...*c06A) *c06A          { return c06Q(c06C(items...)) }

// skeleton tokens (QueryLangGen.tla) -> tree; leaves are filled by fill
func c06FromSkeleton(toks []string, fill func(kind string) *c06A) (*c06A, error) {
	pos := 0
	var parseQ func() (*c06A, error)
	parseQ = func() (*c06A, error) {
		q := &c06A{K: "q"}
		cur := &c06A{K: "c"}
		for pos < len(toks) && toks[pos] != ")" {
			t := toks[pos]
			pos++
			switch t {
			case "or":
				if len(cur.Sub) == 0 {
					return nil, fmt.Errorf("or without operand")
				}
				q.Sub = append(q.Sub, cur)
				cur = &c06A{K: "c"}
			case "a", "-a", "c", "t":
				l := fill(strings.TrimPrefix(t, "-"))
				l.Neg = t == "-a"
				cur.Sub = append(cur.Sub, l)
			case "(", "-(":
				sub, err := parseQ()
				if err != nil {
					return nil, err
				}
				if pos >= len(toks) || toks[pos] != ")" {
					return nil, fmt.Errorf("missing )")
				}
				pos++
				cur.Sub = append(cur.Sub, &c06A{K: "g", Neg: t == "-(", Sub: []*c06A{sub}})
			default:
				return nil, fmt.Errorf("token %q", t)
			}
		}
		if len(cur.Sub) == 0 {
			return nil, fmt.Errorf("empty operand")
		}
		q.Sub = append(q.Sub, cur)
		return q, nil
	}
	q, err := parseQ()
	if err == nil && pos != len(toks) {
		err = fmt.Errorf("trailing tokens")
	}
	return q, err
}

type c06Filler struct{ rng *rand.Rand }

func (f *c06Filler) atom() *c06A {
	rng := f.rng
	switch x := rng.Intn(100); {
	case x < 26:
		return c06Leaf("text", c06Material["text"][rng.Intn(len(c06Material["text"]))])
	case x < 38:
		return c06Leaf("content", c06Material["content"][rng.Intn(len(c06Material["content"]))])
	case x < 52:
		return c06Leaf("file", c06Material["file"][rng.Intn(len(c06Material["file"]))])
	case x < 60:
		return c06Leaf("repo", c06Material["repo"][rng.Intn(len(c06Material["repo"]))])
	case x < 68:
		return c06Leaf("branch", c06Material["branch"][rng.Intn(len(c06Material["branch"]))])
	case x < 76:
		return c06Leaf("lang", c06Material["lang"][rng.Intn(len(c06Material["lang"]))])
	case x < 84:
		return c06Leaf("sym", c06Material["sym"][rng.Intn(len(c06Material["sym"]))])
	case x < 90:
		return c06Leaf("meta", c06Material["meta"][rng.Intn(len(c06Material["meta"]))])
	default:
		fld := []string{"archived", "fork", "public"}[rng.Intn(3)]
		return c06KW(fld, c06Keywords[fld][rng.Intn(2)])
	}
}

func (f *c06Filler) fill(kind string) *c06A {
	switch kind {
	case "c":
		return c06KW("case", c06Keywords["case"][f.rng.Intn(3)])
	case "t":
		return c06KW("type", c06Keywords["type"][f.rng.Intn(4)])
	}
	return f.atom()
}

// random deeper derivation obeying the restrictions of the generator specification
func (f *c06Filler) randQ(depth, maxItems int, budget *int) *c06A {
	rng := f.rng
	q := &c06A{K: "q"}
	nconj := 1 + []int{0, 0, 1, 1, 2}[rng.Intn(5)]
	hasCase, hasType := false, false
	items := 0
	for ci := 0; ci < nconj && items < maxItems; ci++ {
		c := &c06A{K: "c"}
		n := 1 + rng.Intn(3)
		operands := 0
		for k := 0; k < n && items < maxItems; k++ {
			items++
			x := rng.Intn(20)
			switch {
			case x == 0 && !hasCase:
				hasCase = true
				c.Sub = append(c.Sub, f.fill("c"))
			case x == 1 && !hasType:
				hasType = true
				c.Sub = append(c.Sub, f.fill("t"))
			case x < 8 && depth > 1 && *budget > 1:
				*budget--
				g := c06G(f.randQ(depth-1, maxItems, budget))
				g.Neg = rng.Intn(4) == 0
				c.Sub = append(c.Sub, g)
				operands++
			default:
				*budget--
				a := f.atom()
				a.Neg = rng.Intn(5) == 0
				c.Sub = append(c.Sub, a)
				operands++
			}
		}
		if operands == 0 {
			*budget--
			c.Sub = append(c.Sub, f.atom())
		}
		q.Sub = append(q.Sub, c)
	}
	return q
}

// ---------------------------------------------------------------- spellings (concrete derivations)

type c06Spell struct {
	Alias    int  // 0 full field names, 1 aliases, 2 random per leaf
	Quote    int  // 0 bare if possible, 1 always quoted, 2 random, 3 quoted with needless escapes
	Blanks   bool // extra blanks between tokens, at the ends, inside parentheses
	Parens   int  // percentage of operands wrapped in redundant ( x )
	NegGroup bool // -x written -( x )
	Tight    bool // redundant / single-expression groups written without blanks: (x)
	rng      *rand.Rand
}

type c06Text struct {
	Quoted bool
	Items  [][2]int
	Value  string
}

type c06N struct { // node of the concrete derivation, mirrors the records of QueryLangSem.tla
	K   string
	Neg bool
	Sub []*c06N
	P   string
	MF  string
	KW  string
	Val *c06Text
	pad bool // group: blanks inside the parentheses
}

// quoted spelling: value = src; `"` and `\` must be escaped, anything may be
func c06Quoted(src string, noise *rand.Rand) *c06Text {
	t := &c06Text{Quoted: true, Value: src, Items: [][2]int{}}
	for _, r := range src {
		esc := 0
		if r == '"' || r == '\\' || (noise != nil && noise.Intn(4) == 0) {
			esc = 1
		}
		t.Items = append(t.Items, [2]int{int(r), esc})
	}
	return t
}

// unquoted spelling of a pattern: backslash pairs of the pattern become `escape` items (the value
// keeps them), blanks and quotes are written escaped (regexp-equivalent); plain texts (branch,
// lang) can only be written unquoted when nothing needs escaping.
func c06Unquoted(src string, pattern, bare bool) *c06Text {
	t := &c06Text{Items: [][2]int{}}
	rs := []rune(src)
	open := 0
	for i := 0; i < len(rs); i++ {
		r := rs[i]
		switch {
		case r == '\\':
			if !pattern || i+1 >= len(rs) {
				return nil
			}
			i++
			t.Items = append(t.Items, [2]int{int(rs[i]), 1})
		case r == ' ' || r == '\t' || r == '"':
			if !pattern {
				return nil
			}
			t.Items = append(t.Items, [2]int{int(r), 1})
		case r == '\n':
			return nil
		default:
			if r == '(' {
				open++
			}
			if r == ')' {
				open--
				if open < 0 {
					return nil
				}
			}
			t.Items = append(t.Items, [2]int{int(r), 0})
		}
	}
	if len(t.Items) == 0 || t.Items[0][1] == 1 || open != 0 {
		return nil
	}
	var sb strings.Builder
	for _, it := range t.Items {
		if it[1] == 1 {
			sb.WriteByte('\\')
		}
		sb.WriteRune(rune(it[0]))
	}
	t.Value = sb.String()
	if bare {
		y := t.Value
		if strings.ContainsRune("-()", rune(t.Items[0][0])) || y == "or" {
			return nil
		}
		for _, ps := range c06Prefix {
			for _, p := range ps {
				if strings.HasPrefix(y, p) {
					return nil
				}
			}
		}
	}
	return t
}

func (sp *c06Spell) text(a *c06A) *c06Text {
	pattern := c06PatternField[a.Field]
	bare := a.Field == "text"
	q := sp.Quote
	if q == 2 {
		q = sp.rng.Intn(2)
	}
	if q == 0 {
		if t := c06Unquoted(a.Mat.Src, pattern, bare); t != nil {
			return t
		}
		return c06Quoted(a.Mat.Src, nil)
	}
	if q == 3 {
		return c06Quoted(a.Mat.Src, sp.rng)
	}
	return c06Quoted(a.Mat.Src, nil)
}

func (sp *c06Spell) prefix(field string) string {
	ps := c06Prefix[field]
	switch sp.Alias {
	case 0:
		return ps[0]
	case 1:
		return ps[len(ps)-1]
	}
	return ps[sp.rng.Intn(len(ps))]
}

func c06Wrap(e *c06N, neg, pad bool) *c06N {
	return &c06N{K: "g", Neg: neg, pad: pad, Sub: []*c06N{{K: "q", Sub: []*c06N{{K: "c", Sub: []*c06N{e}}}}}}
}

// is the expression a single token that query strings may enclose in tight parentheses without
// becoming the "tight-group" class (a search term)
func c06PlainTerm(e *c06N) bool { return e.K == "t" && !e.Neg }

func (sp *c06Spell) expr(a *c06A, tags map[string]bool) *c06N {
	var e *c06N
	switch {
	case a.K == "g":
		e = &c06N{K: "g", Sub: []*c06N{sp.query(a.Sub[0], tags)}, pad: sp.Blanks && sp.rng.Intn(2) == 0}
		inner := e.Sub[0]
		if len(inner.Sub) == 1 && len(inner.Sub[0].Sub) == 1 && inner.Sub[0].Sub[0].K != "g" && !c06PlainTerm(inner.Sub[0].Sub[0]) {
			e.pad = !sp.Tight
		}
	case a.KW != "":
		e = &c06N{K: "w", P: sp.prefix(a.Field), KW: a.KW}
	case a.Field == "text":
		e = &c06N{K: "t", Val: sp.text(a)}
	default:
		e = &c06N{K: "f", P: sp.prefix(a.Field), MF: a.Mat.MF, Val: sp.text(a)}
	}
	for _, t := range a.Mat.Tags {
		tags[t] = true
	}
	directive := a.Field == "case" || a.Field == "type"
	if !directive && sp.Parens > 0 && sp.rng.Intn(100) < sp.Parens {
		e = c06Wrap(e, false, !sp.Tight)
	}
	if a.Neg {
		if sp.NegGroup && e.K != "g" {
			e = c06Wrap(e, true, !sp.Tight)
		} else {
			e.Neg = true
		}
	}
	return e
}

func (sp *c06Spell) query(a *c06A, tags map[string]bool) *c06N {
	q := &c06N{K: "q"}
	for _, c := range a.Sub {
		cn := &c06N{K: "c"}
		for _, it := range c.Sub {
			cn.Sub = append(cn.Sub, sp.expr(it, tags))
		}
		q.Sub = append(q.Sub, cn)
	}
	return q
}

type c06Tok struct {
	S     string
	O, C  bool
	pad   bool
	plain bool // a search term without "-"
}

func (t *c06Text) yield() string {
	var sb strings.Builder
	if t.Quoted {
		sb.WriteByte('"')
	}
	for _, it := range t.Items {
		if it[1] == 1 {
			sb.WriteByte('\\')
		}
		sb.WriteRune(rune(it[0]))
	}
	if t.Quoted {
		sb.WriteByte('"')
	}
	return sb.String()
}

func (n *c06N) toks() []c06Tok {
	dash := ""
	if n.Neg {
		dash = "-"
	}
	switch n.K {
	case "q":
		var r []c06Tok
		for i, c := range n.Sub {
			if i > 0 {
				r = append(r, c06Tok{S: "or"})
			}
			r = append(r, c.toks()...)
		}
		return r
	case "c":
		var r []c06Tok
		for _, e := range n.Sub {
			r = append(r, e.toks()...)
		}
		return r
	case "g":
		r := []c06Tok{{S: dash + "(", O: true, pad: n.pad}}
		r = append(r, n.Sub[0].toks()...)
		return append(r, c06Tok{S: ")", C: true, pad: n.pad})
	case "t":
		return []c06Tok{{S: dash + n.Val.yield(), plain: !n.Neg}}
	case "f":
		s := dash + n.P
		if n.MF != "" {
			s += n.MF + ":"
		}
		return []c06Tok{{S: s + n.Val.yield()}}
	case "w":
		return []c06Tok{{S: dash + n.P + n.KW}}
	}
	panic("node kind " + n.K)
}

// tight reports the class "tight-group": parentheses with no blank anywhere between them around
// anything but search terms, e.g. (f:x), -(f:x), (-x), (-(x)).
func (sp *c06Spell) assemble(toks []c06Tok) (str string, gaps []int, tight bool) {
	defer func() {
		for k := range toks {
			if !toks[k].O {
				continue
			}
			depth, blank, other := 0, false, false
			for m := k; m < len(toks); m++ {
				if m > k && gaps[m] > 0 {
					blank = true
				}
				if toks[m].O {
					depth++
					if m > k && strings.HasPrefix(toks[m].S, "-") {
						other = true
					}
				} else if toks[m].C {
					depth--
					if depth == 0 {
						break
					}
				} else if !toks[m].plain {
					other = true
				}
			}
			if !blank && other {
				tight = true
			}
		}
	}()
	str, gaps = sp.assemble0(toks)
	return
}

func (sp *c06Spell) assemble0(toks []c06Tok) (string, []int) {
	gaps := make([]int, len(toks)+1)
	extra := func() int {
		if sp.Blanks {
			return sp.rng.Intn(3)
		}
		return 0
	}
	if sp.Blanks {
		gaps[0], gaps[len(toks)] = sp.rng.Intn(2), sp.rng.Intn(3)
	}
	for k := 1; k < len(toks); k++ {
		switch {
		case toks[k-1].O:
			if toks[k-1].pad {
				gaps[k] = 1 + extra()
			}
		case toks[k].C:
			if toks[k].pad {
				gaps[k] = 1 + extra()
			}
		default:
			gaps[k] = 1 + extra()
		}
	}
	var sb strings.Builder
	for k, t := range toks {
		sb.WriteString(strings.Repeat(" ", gaps[k]))
		sb.WriteString(t.S)
	}
	sb.WriteString(strings.Repeat(" ", gaps[len(toks)]))
	return sb.String(), gaps
}

// ---------------------------------------------------------------- events

type c06Vals struct {
	idx   map[string]int
	list  []verifkit.M
	flags syntax.Flags
}

// c06Flags: the document sends the reader to regexp/syntax, whose default (as in regexp.Compile)
// is syntax.Perl: ^ and $ match at the ends of the text.  When the document says that multi-line
// mode is always on (VERIF_C06_MULTILINE=1, set by checks/c06.py from the text of the document)
// they are line anchors.
func c06Flags() syntax.Flags {
	if verifkit.EnvInt("VERIF_C06_MULTILINE", 0) == 1 {
		return syntax.Perl &^ syntax.OneLine
	}
	return syntax.Perl
}

func (v *c06Vals) add(value string) int {
	if i, ok := v.idx[value]; ok {
		return i
	}
	re, err := syntax.Parse(value, v.flags) // "parsed as Go regular expressions"
	if err != nil {
		re = &syntax.Regexp{Op: syntax.OpEmptyMatch} // plain texts (branch, lang) need no AST
	}
	v.list = append(v.list, verifkit.M{"v": verifkit.Runes(value), "re": corpus.RegexJSON(re)})
	v.idx[value] = len(v.list)
	return len(v.list)
}

func (n *c06N) json(vals *c06Vals) verifkit.M {
	sub := []verifkit.M{}
	for _, s := range n.Sub {
		sub = append(sub, s.json(vals))
	}
	val := verifkit.M{"quoted": false, "items": [][2]int{}, "vi": 0}
	if n.Val != nil {
		val = verifkit.M{"quoted": n.Val.Quoted, "items": n.Val.Items, "vi": vals.add(n.Val.Value)}
	}
	return verifkit.M{"k": n.K, "neg": n.Neg, "sub": sub, "p": n.P, "mf": n.MF, "kw": n.KW, "val": val}
}

func c06Valid(a *c06A) error {
	if a.K == "l" && a.KW == "" && c06PatternField[a.Field] {
		if _, err := syntax.Parse(a.Mat.Src, syntax.Perl); err != nil {
			return fmt.Errorf("material %q of %s: %v", a.Mat.Src, a.Field, err)
		}
	}
	for _, s := range a.Sub {
		if err := c06Valid(s); err != nil {
			return err
		}
	}
	return nil
}

func c06Features(a *c06A, f map[string]bool, top bool) {
	switch a.K {
	case "q":
		if len(a.Sub) > 1 {
			f["or"] = true
		}
	case "g":
		f["group"] = true
	case "l":
		if a.Field == "case" || a.Field == "type" {
			f[a.Field] = true
		}
	}
	if a.Neg {
		f["neg"] = true
	}
	for _, s := range a.Sub {
		c06Features(s, f, false)
	}
}

func c06Keys(m map[string]bool) []string {
	r := []string{}
	for k := range m {
		r = append(r, k)
	}
	sort.Strings(r)
	return r
}

type c06Run struct {
	t      *testing.T
	tr     *verifkit.Trace
	loaded []*c06Loaded
	id     int
	nstr   int
}

type c06Loaded = c01Loaded

// emit renders derivation a in the given spellings, parses and searches, and writes one event
func (r *c06Run) emit(fam string, a *c06A, spells []c06Spell) {
	if err := c06Valid(a); err != nil {
		r.t.Fatalf("c06: %v", err)
	}
	r.id++
	vals := &c06Vals{idx: map[string]int{}, list: []verifkit.M{}, flags: c06Flags()}
	vars := []verifkit.M{}
	parsed := []verifkit.M{}
	pidx := map[string]int{}
	seen := map[string]bool{}
	for si, sp := range spells {
		tags := map[string]bool{}
		d := sp.query(a, tags)
		str, gaps, tight := sp.assemble(d.toks())
		if tight {
			tags["tight-group"] = true
		}
		if seen[str] && si > 0 {
			continue
		}
		seen[str] = true
		r.nstr++
		var q query.Q
		var err error
		var pj verifkit.M
		p := verifkit.Catch(func() { q, err = query.Parse(str) })
		out, msg, pi := "ok", "", 0
		switch {
		case p != nil:
			out, msg = "panic", fmt.Sprint(p)
		case err != nil:
			out, msg = "error", err.Error()
		default:
			msg = q.String()
			if p := verifkit.Catch(func() { pj = corpus.FromZoekt(q).JSON() }); p != nil {
				out, msg = "unsupported", fmt.Sprintf("%s: %v", q.String(), p)
			}
		}
		if out == "ok" {
			b, _ := json.Marshal(pj)
			key := string(b)
			if k, ok := pidx[key]; ok {
				pi = k
			} else {
				so := []string{}
				files := [][]int{}
				for _, l := range r.loaded {
					var res *zoekt.SearchResult
					var serr error
					pn := verifkit.Catch(func() { res, serr = l.dir.Search(context.Background(), q, &zoekt.SearchOptions{}) })
					switch {
					case pn != nil:
						so, files = append(so, "panic"), append(files, []int{})
					case serr != nil:
						so, files = append(so, "error"), append(files, []int{})
					case res.Stats.Crashes > 0:
						so, files = append(so, "crash"), append(files, []int{})
					default:
						docs := []int{}
						for _, f := range l.c.Files(l.idx, res, corpus.DetailFiles) {
							docs = append(docs, f["doc"].(int))
						}
						sort.Ints(docs)
						so, files = append(so, "ok"), append(files, docs)
					}
				}
				parsed = append(parsed, verifkit.M{"q": pj, "so": so, "files": files, "qs": q.String()})
				pi = len(parsed)
				pidx[key] = pi
			}
		}
		vars = append(vars, verifkit.M{"d": d.json(vals), "str": verifkit.Runes(str), "gaps": gaps, "out": out, "pi": pi,
			"tags": c06Keys(tags), "msg": msg, "s": str})
	}
	feat := map[string]bool{}
	c06Features(a, feat, true)
	r.tr.Emit(verifkit.M{"ev": "ql", "id": r.id, "fam": fam, "feat": c06Keys(feat), "vals": vals.list, "vars": vars, "parsed": parsed})
}

// the spellings of the main families: canonical first
func c06Spellings(rng *rand.Rand, n int) []c06Spell {
	all := []c06Spell{
		{Alias: 0, Quote: 0},
		{Alias: 1, Quote: 1},
		{Alias: 2, Quote: 0, Blanks: true},
		{Alias: 2, Quote: 2, Parens: 35},
		{Alias: 0, Quote: 3, NegGroup: true},
		{Alias: 1, Quote: 2, Parens: 25, Blanks: true, NegGroup: true},
		{Alias: 2, Quote: 1, Parens: 60},
		{Alias: 2, Quote: 2, Blanks: true, Parens: 15, NegGroup: true},
	}
	if n > len(all) {
		n = len(all)
	}
	res := append([]c06Spell(nil), all[:n]...)
	for i := range res {
		res[i].rng = rng
	}
	return res
}

func c06UpperTable() []int {
	seen := map[rune]bool{}
	add := func(r rune) {
		seen[r] = true
		for f := unicode.SimpleFold(r); f != r; f = unicode.SimpleFold(f) {
			seen[f] = true
		}
	}
	for r := rune(0); r < 128; r++ {
		add(r)
	}
	for _, r := range corpus.Alphabet {
		add(r)
	}
	for _, r := range corpus.ExtraRunes {
		add(r)
	}
	res := []int{}
	for r := range seen {
		if unicode.IsUpper(r) {
			res = append(res, int(r))
		}
	}
	sort.Ints(res)
	return res
}

func TestVerif_C06_QueryLang(t *testing.T) {
	tr := verifkit.Open(t)
	defer tr.Close()
	hdr := corpus.FoldEvent()
	hdr["upper"] = c06UpperTable()
	tr.Emit(hdr)
	run := &c06Run{t: t, tr: tr}
	for _, c := range c06Corpora() {
		l := c01Load(t, c, true)
		defer l.Close()
		run.loaded = append(run.loaded, l)
		tr.Emit(c.Event())
	}
	nspell := verifkit.EnvInt("VERIF_SPELLINGS", verifkit.Pick(6, 8))

	// (1) every field with every value of the material, alone and negated; every keyword
	rng := verifkit.Rng(6001)
	fields := []string{"text", "content", "file", "repo", "branch", "lang", "sym", "meta"}
	for _, f := range fields {
		for i, m := range c06Material[f] {
			l := c06Leaf(f, m)
			if i%3 == 2 {
				l.Neg = true
			}
			run.emit("field", c06One(l), c06Spellings(rng, verifkit.Pick(3, 6)))
		}
	}
	for _, f := range []string{"archived", "fork", "public"} {
		for _, kw := range c06Keywords[f] {
			run.emit("field", c06One(c06KW(f, kw)), c06Spellings(rng, 3))
			run.emit("field", c06One(c06Neg(c06KW(f, kw)), c06Leaf("text", c06Mat{Src: "foo"})), c06Spellings(rng, 3))
		}
	}
	caseSrc, caseFld := []string{"Foo", "fo+", "Fo+", "foo", "FOO", "[fF]oo bar"}, []string{"text", "file", "sym", "content"}
	for _, kw := range c06Keywords["case"] {
		for _, src := range caseSrc[:verifkit.Pick(3, 6)] {
			for _, f := range caseFld[:verifkit.Pick(3, 4)] {
				run.emit("field", c06One(c06KW("case", kw), c06Leaf(f, c06Mat{Src: src})), c06Spellings(rng, 3))
			}
		}
	}
	for _, kw := range c06Keywords["type"] {
		run.emit("field", c06One(c06KW("type", kw), c06Leaf("text", c06Mat{Src: "foo"})), c06Spellings(rng, 4))
		run.emit("field", c06Q(c06C(c06Leaf("text", c06Mat{Src: "foo"}), c06KW("type", kw)), c06C(c06Leaf("file", c06Mat{Src: "bar"}))), c06Spellings(rng, 4))
		run.emit("field", c06Q(c06C(c06G(c06One(c06KW("type", kw), c06Leaf("text", c06Mat{Src: "foo"})))), c06C(c06Leaf("file", c06Mat{Src: "bar"}))), c06Spellings(rng, 4))
	}

	// (1b) scoping of case: and type:, systematically: inner group with / without its own directive,
	// directive after the operands it governs, directive in a later or-operand
	T := func(s string) *c06A { return c06Leaf("text", c06Mat{Src: s}) }
	pairs := [][2]string{{"yes", "no"}, {"no", "yes"}, {"auto", "yes"}, {"yes", "auto"}, {"no", "auto"}, {"auto", "no"}, {"yes", "yes"}, {"no", "no"}}
	for _, p := range pairs[:verifkit.Pick(6, 8)] {
		k1, k2 := c06KW("case", p[0]), c06KW("case", p[1])
		for _, a := range []*c06A{
			c06One(k1, T("Foo"), c06G(c06One(k2, T("foo")))),
			c06One(c06G(c06One(T("foo"), c06G(c06One(T("Bar"), k2)))), k1),
			c06One(c06G(c06One(k2, T("foo"))), T("Bar")),
			c06Q(c06C(T("FOO")), c06C(c06G(c06One(T("foo"), c06G(c06Q(c06C(T("Bar")), c06C(T("bar")))))), k1)),
			c06One(c06Neg(c06G(c06One(k2, c06Leaf("file", c06Mat{Src: "foo"})))), k1, c06Leaf("content", c06Mat{Src: "Bar"})),
		} {
			run.emit("scope", a, c06Spellings(rng, 3))
		}
	}
	for _, kw := range []string{"repo", "file"} {
		ty := c06KW("type", kw)
		for _, a := range []*c06A{
			c06Q(c06C(T("bar")), c06C(T("main"), ty)),
			c06One(T("bar"), c06G(c06One(ty, T("foo")))),
			c06One(c06Neg(c06G(c06One(ty, c06Leaf("content", c06Mat{Src: "bar"})))), c06Leaf("lang", c06Mat{Src: "go"})),
			c06One(ty, c06G(c06Q(c06C(T("école")), c06C(c06G(c06One(c06KW("type", "repo"), T("main"))))))),
			c06Q(c06C(ty, c06Leaf("file", c06Mat{Src: "README"})), c06C(T("Foo"), c06KW("case", "yes")), c06C(c06Leaf("sym", c06Mat{Src: "main"}))),
		} {
			run.emit("scope", a, c06Spellings(rng, 3))
		}
	}

	// (2) skeletons enumerated by TLC
	fl := &c06Filler{rng: verifkit.Rng(6002)}
	fills := verifkit.EnvInt("VERIF_FILLS", 1)
	for _, raw := range verifkit.ReadScripts(t) {
		var toks []string
		if err := json.Unmarshal(raw, &toks); err != nil {
			t.Fatal(err)
		}
		for k := 0; k < fills; k++ {
			a, err := c06FromSkeleton(toks, fl.fill)
			if err != nil {
				t.Fatalf("skeleton %v: %v", toks, err)
			}
			run.emit("skel", a, c06Spellings(fl.rng, nspell))
		}
	}

	// (3) seeded random deeper derivations
	nrand := verifkit.EnvInt("VERIF_RANDOM", verifkit.Pick(40, 600))
	fr := &c06Filler{rng: verifkit.Rng(6003)}
	for k := 0; k < nrand; k++ {
		budget := 4 + fr.rng.Intn(8)
		run.emit("rand", fr.randQ(2+fr.rng.Intn(4), 5, &budget), c06Spellings(fr.rng, nspell))
	}

	// (4) classes that are candidate findings, each in a few contexts
	rs := verifkit.Rng(6004)
	for _, s := range c06Special {
		l := c06Leaf(s.Field, s.Mat)
		sp := c06Spellings(rs, 3)
		run.emit("special", c06One(l), sp)
		run.emit("special", c06One(c06KW("case", "auto"), c06G(c06Q(c06C(l), c06C(c06Leaf("text", c06Mat{Src: "nosuch"}))))), sp)
		if verifkit.Thorough() {
			run.emit("special", c06One(c06Neg(l), c06Leaf("file", c06Mat{Src: "txt"})), sp)
			run.emit("special", c06Q(c06C(l), c06C(c06Leaf("lang", c06Mat{Src: "c"}))), sp)
		}
	}
	tight := []c06Spell{{Alias: 0, Quote: 0, Tight: true, rng: rs}, {Alias: 1, Quote: 1, Tight: true, NegGroup: true, rng: rs}}
	for _, a := range []*c06A{
		c06One(c06G(c06One(c06Leaf("file", c06Mat{Src: "foo"})))),
		c06One(c06Neg(c06G(c06One(c06Leaf("file", c06Mat{Src: "foo"}))))),
		c06One(c06G(c06One(c06Neg(c06Leaf("text", c06Mat{Src: "foo"}))))),
		c06One(c06Leaf("text", c06Mat{Src: "bar"}), c06G(c06One(c06Leaf("lang", c06Mat{Src: "go"})))),
		c06Q(c06C(c06G(c06One(c06KW("archived", "yes")))), c06C(c06Leaf("repo", c06Mat{Src: "acme"}))),
		c06One(c06Neg(c06Leaf("content", c06Mat{Src: "foo"})), c06Leaf("file", c06Mat{Src: "txt"})),
	} {
		run.emit("special", a, tight)
	}

	// (5) probes: inputs whose meaning the document does not define; recorded, never judged
	for _, p := range [][2]string{{"newline-separator", "foo\nbar"}, {"tab-separator", "foo\tbar"}, {"two-types", "type:repo type:file foo"},
		{"two-types-rev", "type:file type:repo foo"}, {"two-cases", "case:yes case:no Foo"}, {"negated-case", "-case:yes foo"},
		{"or-directive-only", "foo or case:yes"}, {"empty-group", "()"}, {"double-negation", "--foo"}, {"blank-after-dash", "- foo"},
		{"quoted-keyword", `case:"yes" Foo`}, {"empty-sym", `sym:""`}} {
		var q query.Q
		var err error
		pn := verifkit.Catch(func() { q, err = query.Parse(p[1]) })
		res := ""
		switch {
		case pn != nil:
			res = fmt.Sprintf("panic: %v", pn)
		case err != nil:
			res = "error: " + err.Error()
		default:
			res = q.String()
		}
		tr.Emit(verifkit.M{"ev": "probe", "name": p[0], "s": p[1], "result": res})
	}
	t.Logf("c06: %d derivations, %d strings", run.id, run.nstr)
}
