//go:build verif

package search_test

import (
	"context"
	"fmt"
	"sync"
	"testing"
	"time"

	"github.com/sourcegraph/zoekt"
	"github.com/sourcegraph/zoekt/internal/verifkit"
	"github.com/sourcegraph/zoekt/internal/verifkit/corpus"
	"github.com/sourcegraph/zoekt/query"
)

// countCtx is done from the k-th poll of Done()/Err() on (k = 0: never).
type countCtx struct {
	context.Context
	mu sync.Mutex
	n  int
	k  int
	ch chan struct{}
}

func newCountCtx(k int) *countCtx {
	return &countCtx{Context: context.Background(), k: k, ch: make(chan struct{})}
}

func (c *countCtx) poll() bool {
	c.mu.Lock()
	defer c.mu.Unlock()
	c.n++
	if c.k > 0 && c.n == c.k {
		close(c.ch)
	}
	return c.k > 0 && c.n >= c.k
}

func (c *countCtx) Done() <-chan struct{} { c.poll(); return c.ch }
func (c *countCtx) Err() error {
	c.mu.Lock()
	defer c.mu.Unlock()
	if c.k > 0 && c.n >= c.k {
		return context.Canceled
	}
	return nil
}
func (c *countCtx) Polls() int { c.mu.Lock(); defer c.mu.Unlock(); return c.n }

type c21Res struct {
	res     *zoekt.SearchResult
	outcome string
	msg     string
}

// run a search with a watchdog: a search that does not return is recorded as "hang".
func c21Run(s zoekt.Searcher, ctx context.Context, zq query.Q, opts *zoekt.SearchOptions) c21Res {
	ch := make(chan c21Res, 1)
	go func() {
		var r c21Res
		p := verifkit.Catch(func() {
			res, err := s.Search(ctx, zq, opts)
			if err != nil {
				r = c21Res{outcome: "error", msg: err.Error()}
			} else {
				r = c21Res{res: res, outcome: "ok"}
			}
		})
		if p != nil {
			r = c21Res{outcome: "panic", msg: fmt.Sprint(p)}
		}
		ch <- r
	}()
	select {
	case r := <-ch:
		return r
	case <-time.After(60 * time.Second):
		return c21Res{outcome: "hang"}
	}
}

func c21Mode(opts *zoekt.SearchOptions) string {
	if opts.ChunkMatches {
		return "chunk"
	}
	return "line"
}

func TestVerif_C21_Limits(t *testing.T) {
	tr := verifkit.Open(t)
	defer tr.Close()
	tr.Emit(corpus.FoldEvent())
	ncorp := verifkit.EnvInt("VERIF_CORPORA", verifkit.Pick(10, 120))
	for ci := 0; ci < ncorp; ci++ {
		rng := verifkit.Rng(int64(21000 + ci))
		p := corpus.Profile{MaxRepos: 3, MaxDocs: 6, MaxLen: 30, Compound: true, Tombstones: ci%3 == 0, Symbols: true}
		c := corpus.Gen(rng, ci+1, p)
		l := c01Load(t, c, true)
		tr.Emit(c.Event())
		g := &corpus.QGen{Rng: rng, C: c}
		var qs []*corpus.Q
		for _, pat := range []string{"a", "ab", c.PickPattern(rng, false)} {
			qs = append(qs, &corpus.Q{T: "substr", Pat: pat, CT: true})
		}
		qs = append(qs, &corpus.Q{T: "regex", Pat: "[ab]+", CT: true, CS: true}, &corpus.Q{T: "const", B: true}, g.Tree(2), g.Tree(2))
		for _, q := range qs {
			kind, shard := "dir", 0
			var s zoekt.Searcher = l.dir
			if rng.Intn(2) == 0 {
				kind = "shard"
				shard = c.Repos[rng.Intn(len(c.Repos))].Shard
				s = l.shards[shard]
			}
			base := zoekt.SearchOptions{ChunkMatches: rng.Intn(2) == 0, NumContextLines: rng.Intn(2)}
			refLine := tr.Len() + 1
			c01Search(tr, l, kind, shard, q, &base, corpus.DetailRanges, nil)
			zq := q.Zoekt()
			emit := func(opts zoekt.SearchOptions, cancel int, r c21Res, nolimit bool) {
				ev := verifkit.M{"ev": "limited", "cid": c.ID, "kind": kind, "shard": shard, "q": q.JSON(), "mode": c21Mode(&opts),
					"ctx": opts.NumContextLines, "back": tr.Len() + 1 - refLine, "outcome": r.outcome, "files": []verifkit.M{},
					"limits": []int{opts.ShardMaxMatchCount, opts.ShardRepoMaxMatchCount, opts.TotalMaxMatchCount}, "cancel": cancel,
					"nolimit": nolimit, "qs": zq.String() + " " + r.msg, "detail": corpus.DetailRanges}
				if r.res != nil {
					ev["files"] = l.c.Files(l.idx, r.res, corpus.DetailRanges)
				}
				tr.Emit(ev)
			}
			// match-count limits
			for _, lim := range [][3]int{{1, 0, 0}, {0, 1, 0}, {0, 0, 1}, {2, 0, 0}, {0, 2, 0}, {0, 0, 3}, {1, 1, 1}, {1000, 1000, 1000}, {3, 1, 0}} {
				if rng.Intn(2) == 0 && lim[0] != 1000 {
					continue
				}
				o := base
				o.ShardMaxMatchCount, o.ShardRepoMaxMatchCount, o.TotalMaxMatchCount = lim[0], lim[1], lim[2]
				emit(o, 0, c21Run(s, context.Background(), zq, &o), lim[0] == 1000)
			}
			// tiny wall time budget
			o := base
			o.MaxWallTime = time.Nanosecond
			emit(o, -1, c21Run(s, context.Background(), zq, &o), false)
			// cancellation at every poll of the context
			probe := newCountCtx(0)
			c21Run(s, probe, zq, &base)
			polls := probe.Polls()
			step := 1
			if polls > 24 {
				step = polls / 24
			}
			for k := 1; k <= polls; k += step {
				emit(base, k, c21Run(s, newCountCtx(k), zq, &base), false)
			}
		}
		l.Close()
	}
}

// C22: display limits.
func TestVerif_C22_Display(t *testing.T) {
	tr := verifkit.Open(t)
	defer tr.Close()
	tr.Emit(corpus.FoldEvent())
	ncorp := verifkit.EnvInt("VERIF_CORPORA", verifkit.Pick(10, 120))
	for ci := 0; ci < ncorp; ci++ {
		rng := verifkit.Rng(int64(22000 + ci))
		var c *corpus.Corpus
		if ci%2 == 0 {
			c = c03Corpus(rng, ci+1)
			// spread over two repositories/shards for half of them
			if ci%4 == 0 && len(c.Docs) > 2 {
				c.Repos = append(c.Repos, corpus.Repo{Name: "repo/h", ID: 42, Branches: []string{"HEAD"}, Shard: 1})
				for i := range c.Docs {
					if i%2 == 1 {
						c.Docs[i].Repo = 1
					}
				}
			}
		} else {
			c = corpus.Gen(rng, ci+1, corpus.Profile{MaxRepos: 3, MaxDocs: 5, MaxLen: 40, Compound: ci%3 == 0})
		}
		l := c01Load(t, c, true)
		tr.Emit(c.Event())
		qs := []*corpus.Q{
			{T: "substr", Pat: "abc", CT: true, CS: true},
			{T: "substr", Pat: "a", CT: true},
			{T: "regex", Pat: `(?s)b.*?a`, CT: true, CS: true},
			{T: "regex", Pat: `a\nb`, CT: true, CS: true},
			{T: "or", Sub: []*corpus.Q{{T: "substr", Pat: "b", CT: true}, {T: "substr", Pat: "txt", FN: true}}},
		}
		for _, q := range qs {
			zq := q.Zoekt()
			base := zoekt.SearchOptions{ChunkMatches: rng.Intn(2) == 0, NumContextLines: rng.Intn(4)}
			ref := c21Run(l.dir, context.Background(), zq, &base)
			if ref.outcome != "ok" {
				continue
			}
			refLine := tr.Len() + 1
			c01Search(tr, l, "dir", 0, q, &base, corpus.DetailGeometry, nil)
			nfiles := len(ref.res.Files)
			nmatches := 0
			for _, f := range ref.res.Files {
				for _, m := range f.LineMatches {
					nmatches += len(m.LineFragments)
				}
				for _, m := range f.ChunkMatches {
					nmatches += len(m.Ranges)
				}
			}
			type lim struct{ d, m int }
			var lims []lim
			for d := 1; d <= nfiles+1 && d <= 6; d++ {
				lims = append(lims, lim{d, 0})
			}
			for m := 1; m <= nmatches+1 && m <= 12; m++ {
				lims = append(lims, lim{0, m})
			}
			lims = append(lims, lim{2, 3}, lim{1, 1}, lim{3, 2})
			for _, lm := range lims {
				if !verifkit.Thorough() && rng.Intn(3) != 0 {
					continue
				}
				o := base
				o.MaxDocDisplayCount, o.MaxMatchDisplayCount = lm.d, lm.m
				// 0: Search; 1: StreamSearch, events as they come; 2: StreamSearch with FlushWallTime: the events
				// of all shards are collected and ranked before the display limits apply, so the reply has to
				// be the ranked prefix like a Search's
				for mode := 0; mode < 3; mode++ {
					stream := mode == 1
					var r c21Res
					if mode == 0 {
						r = c21Run(l.dir, context.Background(), zq, &o)
					} else {
						if mode == 2 {
							o.FlushWallTime = time.Minute
						}
						agg := &zoekt.SearchResult{}
						p := verifkit.Catch(func() {
							err := l.dir.StreamSearch(context.Background(), zq, &o, zoekt.SenderFunc(func(ev *zoekt.SearchResult) {
								agg.Files = append(agg.Files, ev.Files...)
							}))
							if err != nil {
								r = c21Res{outcome: "error", msg: err.Error()}
							} else {
								r = c21Res{res: agg, outcome: "ok"}
							}
						})
						if p != nil {
							r = c21Res{outcome: "panic", msg: fmt.Sprint(p)}
						}
					}
					ev := verifkit.M{"ev": "display", "cid": c.ID, "kind": "dir", "shard": 0, "q": q.JSON(), "mode": c21Mode(&o),
						"ctx": o.NumContextLines, "back": tr.Len() + 1 - refLine, "outcome": r.outcome, "files": []verifkit.M{},
						"maxdoc": lm.d, "maxmatch": lm.m, "stream": stream, "flush": mode == 2, "qs": zq.String() + " " + r.msg, "detail": corpus.DetailGeometry}
					if r.res != nil {
						ev["files"] = l.c.Files(l.idx, r.res, corpus.DetailGeometry)
					}
					tr.Emit(ev)
				}
			}
		}
		l.Close()
	}
}

// C29: the same search several times (same searcher x3, freshly loaded searcher, DebugScore on)
// with default and BM25 scoring.
func TestVerif_C29_Rank(t *testing.T) {
	tr := verifkit.Open(t)
	defer tr.Close()
	tr.Emit(corpus.FoldEvent())
	ncorp := verifkit.EnvInt("VERIF_CORPORA", verifkit.Pick(12, 150))
	for ci := 0; ci < ncorp; ci++ {
		rng := verifkit.Rng(int64(29000 + ci))
		p := corpus.Profile{MaxRepos: 3, MaxDocs: 7, MaxLen: 50, Compound: ci%2 == 0, Symbols: true}
		c := corpus.Gen(rng, ci+1, p)
		l := c01Load(t, c, true)
		l2 := c01Load(t, c, true) // freshly loaded copy
		tr.Emit(c.Event())
		g := &corpus.QGen{Rng: rng, C: c}
		var qs []*corpus.Q
		for _, pat := range []string{"a", "ab", c.PickPattern(rng, false), c.PickPattern(rng, false)} {
			qs = append(qs, &corpus.Q{T: "substr", Pat: pat, CT: rng.Intn(2) == 0})
		}
		qs = append(qs,
			&corpus.Q{T: "or", Sub: []*corpus.Q{{T: "substr", Pat: "a"}, {T: "substr", Pat: "b"}, {T: "substr", Pat: "c"}, {T: "regex", Pat: "[ab]c"}}},
			&corpus.Q{T: "and", Sub: []*corpus.Q{{T: "substr", Pat: "a"}, {T: "boost", Sub: []*corpus.Q{{T: "substr", Pat: "b"}}}}},
			&corpus.Q{T: "symbol", Sub: []*corpus.Q{{T: "regex", Pat: ".*", CT: true}}},
			&corpus.Q{T: "const", B: true}, g.Tree(2), g.Tree(3))
		for _, q := range qs {
			zq := q.Zoekt()
			for _, bm25 := range []bool{false, true} {
				kind, shard := "dir", 0
				var s, s2 zoekt.Searcher = l.dir, l2.dir
				if rng.Intn(3) == 0 {
					kind = "shard"
					shard = c.Repos[rng.Intn(len(c.Repos))].Shard
					s, s2 = l.shards[shard], l2.shards[shard]
				}
				base := zoekt.SearchOptions{ChunkMatches: rng.Intn(2) == 0, NumContextLines: rng.Intn(2), UseBM25Scoring: bm25}
				dbg := base
				dbg.DebugScore = true
				type run struct {
					s    zoekt.Searcher
					opts zoekt.SearchOptions
					lbl  string
				}
				var runs []verifkit.M
				for _, r := range []run{{s, base, "same-1"}, {s, base, "same-2"}, {s, base, "same-3"}, {s2, base, "fresh"}, {s, dbg, "debug"}} {
					o := r.opts
					res := c21Run(r.s, context.Background(), zq, &o)
					m := verifkit.M{"label": r.lbl, "outcome": res.outcome, "files": []verifkit.M{}, "ge90": []bool{}}
					if res.res != nil {
						m["files"] = c.Files(l.idx, res.res, corpus.DetailRanges)
						ge := make([]bool, len(res.res.Files))
						for k := 0; k+1 < len(res.res.Files); k++ {
							ge[k] = res.res.Files[k].Score >= 0.9*res.res.Files[k+1].Score
						}
						m["ge90"] = ge
					}
					runs = append(runs, m)
				}
				tr.Emit(verifkit.M{"ev": "rank", "cid": c.ID, "kind": kind, "shard": shard, "q": q.JSON(), "qs": zq.String(),
					"bm25": bm25, "mode": c21Mode(&base), "ctx": base.NumContextLines, "runs": runs, "files": []verifkit.M{}, "outcome": "ok"})
			}
		}
		l.Close()
		l2.Close()
	}
}
