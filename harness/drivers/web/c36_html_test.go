//go:build verif

package web

// C36: the web UI renders index and request text as text.
//
// Two corpora with the same shape are served by real web.Server handlers (httptest) over a real
// directory searcher: "payload" (every value taken from the index or the request carries a marker
// Mk<site>k followed by an HTML/JS/URL payload) and its "benign" twin (the same values with every
// non-alphanumeric payload character replaced by x).  Every response is tokenised with
// golang.org/x/net/html and logged as a token stream for spec/trace/Trace_HtmlSkel.tla:
//   k    S start tag, E end tag, T text (white-space-only text dropped), C comment, D doctype
//   an   attribute names (sorted), ad  names of attributes that carry a recognised payload value
//   cls  for T: "data" if the text carries a recognised payload value, else "static"
//   bad  number of marker occurrences in this token that are NOT followed by the verbatim value
//        (after the decoding proper to the slot: entity decoding by the tokenizer; percent-decoding
//        for href/src/action; string-literal decoding for script text and on* attributes)
//   js   for script text and on* attributes: the source with the content of every string literal
//        replaced by § (the code skeleton), else ""
//   url  for href/src/action/formaction attributes: [name, first code points of the value]

import (
	"bytes"
	"encoding/json"
	"fmt"
	"io"
	"net/http"
	"net/http/httptest"
	"net/url"
	"os"
	"path/filepath"
	"regexp"
	"sort"
	"strconv"
	"strings"
	"testing"
	"unicode"
	"unicode/utf8"

	"golang.org/x/net/html"

	"github.com/sourcegraph/zoekt"
	"github.com/sourcegraph/zoekt/index"
	"github.com/sourcegraph/zoekt/internal/verifkit"
	"github.com/sourcegraph/zoekt/search"
)

type c36M = verifkit.M

var c36Payloads = []string{
	`<script>alert(1)</script>`,
	`"><img src=x onerror=alert(1)>`,
	`javascript:alert(1)`,
	`</pre></td><b>bold`,
	`{{.Path}}{{`,
	"\xff\xfeinvalid<i>",
	`' onmouseover='alert(1)`,
	`</title></script><svg onload=alert(1)>`,
	`";alert(1);//`,
	`&lt;b&gt;&#60;i&#62;`,
	`--><!--<u>`,
	" sep<b>",
	"`${alert(1)}`<b>",
	`<script>\"'`,
	`');alert(1);//`,
	`<a href="javascript:alert(1)">x</a>`,
}

// sites: every injected value gets its own marker number; values[benign][site] is the full value
type c36Sites struct {
	vals [2][]string
}

func c36Benign(p string) string {
	var b strings.Builder
	for i := 0; i < len(p); {
		r, n := utf8.DecodeRuneInString(p[i:])
		if r < 128 && (unicode.IsLetter(r) || unicode.IsDigit(r)) {
			b.WriteRune(r)
		} else {
			b.WriteByte('x')
		}
		i += n
	}
	return b.String()
}

// add registers a value made of prefix + marker + payload + suffix and returns both variants
func (s *c36Sites) add(prefix string, payload int, suffix string) [2]string {
	id := len(s.vals[0])
	p := c36Payloads[payload%len(c36Payloads)]
	mk := fmt.Sprintf("Mk%dk", id)
	s.vals[0] = append(s.vals[0], mk+p)
	s.vals[1] = append(s.vals[1], mk+c36Benign(p))
	return [2]string{prefix + mk + p + suffix, prefix + mk + c36Benign(p) + suffix}
}

// addQuoted: the payload as the content of a quoted string of the query language
func (s *c36Sites) addQuoted(payload int) [2]string {
	id := len(s.vals[0])
	esc := strings.NewReplacer(`\\`, `\\\\`, `"`, `\\"`).Replace(c36Payloads[payload%len(c36Payloads)])
	mk := fmt.Sprintf("Mk%dk", id)
	s.vals[0] = append(s.vals[0], mk+esc)
	s.vals[1] = append(s.vals[1], mk+c36Benign(esc))
	return [2]string{`needle "` + mk + esc + `"`, `needle "` + mk + c36Benign(esc) + `"`}
}

// norm: what a browser shows for the bytes: invalid UTF-8 and NUL become U+FFFD (runs collapsed:
// whether a run of invalid bytes is one replacement character or several is not the property)
var c36Repl = regexp.MustCompile("\uFFFD+")

func c36Norm(s string) string {
	s = strings.ReplaceAll(strings.ToValidUTF8(s, "\uFFFD"), "\x00", "\uFFFD")
	return c36Repl.ReplaceAllString(s, "\uFFFD")
}

var c36Debug func(format string, args ...any)
var c36Debugged int

var c36Marker = regexp.MustCompile(`Mk(\d+)k`)

// recognise: occurrences of markers in text; ok = followed by the verbatim (normalised) value
func (s *c36Sites) recognise(variant int, texts ...string) (ok, bad int) {
	type occ struct{ good bool }
	best := map[string]bool{}
	for _, text := range texts {
		for _, m := range c36Marker.FindAllStringSubmatchIndex(text, -1) {
			id, _ := strconv.Atoi(text[m[2]:m[3]])
			key := fmt.Sprint(id)
			if id >= len(s.vals[variant]) {
				continue
			}
			want := c36Norm(s.vals[variant][id])
			if strings.HasPrefix(c36Norm(text[m[0]:]), want) {
				best[key] = true
			} else if _, seen := best[key]; !seen {
				best[key] = false
			}
		}
	}
	for key, g := range best {
		if g {
			ok++
		} else {
			bad++
			if c36Debug != nil && c36Debugged < 12 {
				c36Debugged++
				id, _ := strconv.Atoi(key)
				c36Debug("unrecognised site %d want %q in %q", id, c36Norm(s.vals[variant][id]), texts)
			}
		}
	}
	return
}

// jsSkeleton: the source with string literal contents replaced by §, and the decoded literals
func c36JS(src string) (skel string, lits []string) {
	var b strings.Builder
	for i := 0; i < len(src); {
		c := src[i]
		if c == '/' && i+1 < len(src) && src[i+1] == '/' {
			j := strings.IndexByte(src[i:], '\n')
			if j < 0 {
				j = len(src) - i
			}
			b.WriteString(src[i : i+j])
			i += j
			continue
		}
		if c != '"' && c != '\'' && c != '`' {
			b.WriteByte(c)
			i++
			continue
		}
		var lit strings.Builder
		j := i + 1
		closed := false
		for j < len(src) {
			d := src[j]
			if d == c {
				closed = true
				break
			}
			if d == '\n' && c != '`' {
				break
			}
			if d == '\\' && j+1 < len(src) {
				e := src[j+1]
				switch {
				case e == 'u' && j+5 < len(src):
					if n, err := strconv.ParseUint(src[j+2:j+6], 16, 32); err == nil {
						lit.WriteRune(rune(n))
						j += 6
						continue
					}
				case e == 'x' && j+3 < len(src):
					if n, err := strconv.ParseUint(src[j+2:j+4], 16, 32); err == nil {
						lit.WriteRune(rune(n))
						j += 4
						continue
					}
				case e == 'n':
					lit.WriteByte('\n')
					j += 2
					continue
				case e == 't':
					lit.WriteByte('\t')
					j += 2
					continue
				case e == 'r':
					lit.WriteByte('\r')
					j += 2
					continue
				}
				lit.WriteByte(e)
				j += 2
				continue
			}
			lit.WriteByte(d)
			j++
		}
		if !closed {
			b.WriteString("§UNTERMINATED")
			b.WriteString(src[i:])
			return b.String(), lits
		}
		lits = append(lits, lit.String())
		b.WriteByte(c)
		b.WriteString("§")
		b.WriteByte(c)
		i = j + 1
	}
	return b.String(), lits
}

func c36IsURLAttr(n string) bool {
	return n == "href" || n == "src" || n == "action" || n == "formaction"
}

func c36Tokens(sites *c36Sites, variant int, body []byte) (toks []c36M, nbad, ndata int) {
	z := html.NewTokenizer(bytes.NewReader(body))
	rawTag := ""
	toks = []c36M{}
	for {
		tt := z.Next()
		if tt == html.ErrorToken {
			break
		}
		t := z.Token()
		tok := c36M{"k": "", "tag": "", "an": []string{}, "ad": []string{}, "cls": "", "bad": 0, "js": "", "url": [][]any{}}
		switch tt {
		case html.TextToken:
			if strings.TrimSpace(t.Data) == "" {
				continue
			}
			tok["k"] = "T"
			var ok, bad int
			if rawTag == "script" {
				skel, lits := c36JS(t.Data)
				tok["js"] = skel
				ok, bad = sites.recognise(variant, lits...)
				o2, b2 := sites.recognise(variant, skel)
				bad += o2 + b2 // a marker outside every string literal
			} else {
				ok, bad = sites.recognise(variant, t.Data)
			}
			tok["cls"] = "static"
			if ok+bad > 0 {
				tok["cls"] = "data"
			}
			tok["bad"] = bad
			tok["tag"] = rawTag
		case html.StartTagToken, html.SelfClosingTagToken, html.EndTagToken:
			tok["k"] = map[html.TokenType]string{html.StartTagToken: "S", html.SelfClosingTagToken: "S", html.EndTagToken: "E"}[tt]
			tok["tag"] = t.Data
			if tt == html.EndTagToken {
				rawTag = ""
			} else if t.Data == "script" || t.Data == "style" || t.Data == "title" || t.Data == "textarea" {
				rawTag = t.Data
			}
			names, data, urls, bad := []string{}, []string{}, [][]any{}, 0
			js := ""
			for _, a := range t.Attr {
				names = append(names, a.Key)
				var ok, b1 int
				switch {
				case strings.HasPrefix(a.Key, "on"):
					skel, lits := c36JS(a.Val)
					js += a.Key + "=" + skel + ";"
					ok, b1 = sites.recognise(variant, lits...)
					o2, b2 := sites.recognise(variant, skel)
					b1 += o2 + b2
				case c36IsURLAttr(a.Key):
					cands := []string{a.Val}
					if u, err := url.PathUnescape(a.Val); err == nil {
						cands = append(cands, u)
					}
					if u, err := url.QueryUnescape(a.Val); err == nil {
						cands = append(cands, u)
					}
					ok, b1 = sites.recognise(variant, cands...)
					v := a.Val
					if len(v) > 24 {
						v = v[:24]
					}
					urls = append(urls, []any{a.Key, verifkit.Runes(strings.ToValidUTF8(v, "?"))})
				default:
					ok, b1 = sites.recognise(variant, a.Val)
				}
				if ok+b1 > 0 {
					data = append(data, a.Key)
				}
				bad += b1
			}
			sort.Strings(names)
			sort.Strings(data)
			tok["an"], tok["ad"], tok["url"], tok["bad"], tok["js"] = names, data, urls, bad, js
		case html.CommentToken:
			tok["k"] = "C"
			ok, bad := sites.recognise(variant, t.Data)
			tok["bad"] = ok + bad // no comment carries data
		case html.DoctypeToken:
			tok["k"] = "D"
		}
		nbad += tok["bad"].(int)
		if tok["cls"] == "data" || len(tok["ad"].([]string)) > 0 {
			ndata++
		}
		toks = append(toks, tok)
	}
	return
}

// ---------------------------------------------------------------- corpus

type c36Corpus struct {
	sites   c36Sites
	dirs    [2]string
	repos   [2][]string // repository names
	files   [2][][2]string
	queries [][2]string // payload queries (q parameter)
	quoted  [][2]string // needle "payload"
}

func c36Build(t *testing.T, base string) *c36Corpus {
	c := &c36Corpus{}
	s := &c.sites
	for v := 0; v < 2; v++ {
		c.dirs[v] = filepath.Join(base, []string{"payload", "benign"}[v])
		os.MkdirAll(c.dirs[v], 0o755)
	}
	pay := (int(verifkit.Seed()) + verifkit.EnvInt("VERIF_C36_ROT", 0)) % len(c36Payloads) // which payload lands at which site depends on the seed
	next := func() int { pay++; return pay - 1 }
	// URL templates are parsed as text/template by the builder: no payload with "{{" there
	nextTpl := func() int {
		for strings.Contains(c36Payloads[pay%len(c36Payloads)], "{{") {
			pay++
		}
		pay++
		return pay - 1
	}
	for ri := 0; ri < 4; ri++ {
		name := s.add(fmt.Sprintf("org/r%d-", ri), next(), "")
		repoURL := s.add("", next(), "")
		if ri%2 == 1 {
			repoURL = s.add("https://example.com/", next(), "/tree")
		}
		if ri == 2 {
			repoURL = s.add(" \tjavascript:alert(1)//", next(), "")
		}
		fileTpl := s.add("https://example.com/f/", nextTpl(), "/{{.Version}}/{{.Path}}")
		if ri == 2 {
			// script schemes in every spelling a browser accepts (case, leading blanks), and the other active ones
			fileTpl = s.add([]string{"JavaScript:alert(1)//", "javascript:alert(1)//", " \tJAVASCRIPT:alert(1)//", "vbscript:msgbox(1)//",
				"data:text/html,<script>alert(1)</script>"}[(int(verifkit.Seed())+verifkit.EnvInt("VERIF_C36_ROT", 0))%5], nextTpl(), "/{{.Path}}")
		}
		if ri == 1 {
			fileTpl = s.add("DATA:text/html;x=", nextTpl(), "/{{.Version}}/{{.Path}}")
		}
		if ri == 3 {
			fileTpl = [2]string{"", ""} // local print links
		}
		fragTpl := s.add("#L{{.LineNumber}}", nextTpl(), "")
		commitTpl := s.add("https://example.com/c/", nextTpl(), "/{{.Version}}")
		if ri == 2 {
			commitTpl = s.add("JaVaScRiPt:alert(1)//", nextTpl(), "/{{.Version}}")
		}
		br := [][2]string{s.add("br-", next(), ""), s.add("", next(), "")}
		brv := [][2]string{s.add("v", next(), ""), s.add("v", next(), "")}
		lang := s.add("L", next(), "")
		type doc struct{ name, content [2]string }
		var docs []doc
		for di := 0; di < 3; di++ {
			nm := s.add(fmt.Sprintf("dir%d/", di), next(), ".txt")
			var lines [2][]string
			for li := 0; li < 5; li++ {
				var ln [2]string
				switch li % 5 {
				case 0:
					ln = s.add("before ", next(), "")
				case 1:
					// di == 2: a line longer than the result page shows (LimitPre / LimitPost keep 100 bytes
					// on either side of the match): the payloads sit inside the retained windows
					prefix, suffix := "pre ", " post"
					if di == 2 {
						prefix, suffix = strings.Repeat("zy ", 50)+"pre ", " post"+strings.Repeat(" yz", 50)
					}
					pre := s.add(prefix, next(), " needle ")
					post := s.add("", next(), suffix)
					ln = [2]string{pre[0] + post[0], pre[1] + post[1]}
				case 2:
					ln = s.add("after ", next(), "")
				case 3:
					ln = s.add("needle needle ", next(), " needle")
				default:
					ln = s.add("", next(), "")
				}
				for v := 0; v < 2; v++ {
					lines[v] = append(lines[v], ln[v])
				}
			}
			docs = append(docs, doc{nm, [2]string{strings.Join(lines[0], "\n") + "\n", strings.Join(lines[1], "\n") + "\n"}})
		}
		for v := 0; v < 2; v++ {
			repo := &zoekt.Repository{
				Name: name[v], ID: uint32(ri + 1), URL: repoURL[v],
				FileURLTemplate: fileTpl[v], LineFragmentTemplate: fragTpl[v], CommitURLTemplate: commitTpl[v],
				Branches: []zoekt.RepositoryBranch{{Name: br[0][v], Version: brv[0][v]}, {Name: br[1][v], Version: brv[1][v]}},
			}
			sb, err := index.NewShardBuilder(repo)
			if err != nil {
				t.Fatalf("NewShardBuilder: %v", err)
			}
			for _, d := range docs {
				if err := sb.Add(index.Document{Name: d.name[v], Content: []byte(d.content[v]), Language: lang[v],
					Branches: []string{br[0][v], br[1][v]}}); err != nil {
					t.Fatalf("Add: %v", err)
				}
				c.files[v] = append(c.files[v], [2]string{name[v], d.name[v]})
			}
			f, err := os.Create(filepath.Join(c.dirs[v], fmt.Sprintf("r%d_v16.00000.zoekt", ri)))
			if err != nil {
				t.Fatal(err)
			}
			if err := sb.Write(f); err != nil {
				t.Fatal(err)
			}
			f.Close()
			c.repos[v] = append(c.repos[v], name[v])
		}
	}
	for i := range c36Payloads {
		c.queries = append(c.queries, s.add("", i, ""))
		c.quoted = append(c.quoted, s.addQuoted(i))
	}
	return c
}

type c36Req struct {
	kind string // corpus: values from the index; query: values from the request
	tmpl string
	path [2]string
}

func (c *c36Corpus) requests() []c36Req {
	var rs []c36Req
	same := func(kind, tmpl, p string) { rs = append(rs, c36Req{kind, tmpl, [2]string{p, p}}) }
	same("corpus", "results", "/search?q=needle&num=50")
	same("corpus", "results", "/search?q=needle&ctx=2")
	same("corpus", "results", "/search?q=needle&ctx=1&debug=1&num=7")
	same("corpus", "results", "/search?q=needle+or+before&num=3")
	same("corpus", "results", "/search?q=f:dir1+needle")
	// the match itself is payload text: the benign corpus has no such matches, so no twin comparison
	rs = append(rs, c36Req{"solo", "results", [2]string{"/search?q=" + url.QueryEscape(`<[a-z]+>`) + "&num=50", "/search?q=needle"}})
	rs = append(rs, c36Req{"solo", "results", [2]string{"/search?q=" + url.QueryEscape(`alert\(1\)`) + "&ctx=1", "/search?q=needle"}})
	same("corpus", "repolist", "/search?q=r:")
	same("corpus", "repolist", "/search?q=r:org&order=revname&num=2")
	same("corpus", "repolist", "/search?q=r:r1&order=size")
	same("corpus", "search", "/")
	same("corpus", "about", "/about")
	q := func(tmpl, format string, args ...[2]string) {
		var p [2]string
		for v := 0; v < 2; v++ {
			xs := make([]any, len(args))
			for i, a := range args {
				xs[i] = url.QueryEscape(a[v])
			}
			p[v] = fmt.Sprintf(format, xs...)
		}
		rs = append(rs, c36Req{"query", tmpl, p})
	}
	for i, pq := range c.queries {
		q("results", "/search?q=%s", c.quoted[i])
		q("search", "/?q=%s", pq)
		if i%3 == 0 {
			q("results", "/search?q=needle&num=%s&ctx=%s", pq, pq)
			q("repolist", "/search?q=r:&order=%s", pq)
		}
		if i%4 == 1 {
			q("results", "/search?q=%s", pq) // may not parse
		}
	}
	for i := range c.files[0] {
		f0, f1 := c.files[0][i], c.files[1][i]
		pq := c.queries[i%len(c.queries)]
		q("print", "/print?r=%s&f=%s&q=%s", [2]string{f0[0], f1[0]}, [2]string{f0[1], f1[1]}, pq)
	}
	return rs
}

func TestVerif_C36_Pages(t *testing.T) {
	tr := verifkit.Open(t)
	defer tr.Close()
	base, err := os.MkdirTemp(os.Getenv("VERIF_WORK"), "c36")
	if err != nil {
		t.Fatal(err)
	}
	defer os.RemoveAll(base)
	c := c36Build(t, base)
	if os.Getenv("VERIF_C36_DEBUG") != "" {
		c36Debug = t.Logf
	}
	id := 0
	for _, print := range []bool{false, true} {
		var mux [2]*http.ServeMux
		for v := 0; v < 2; v++ {
			s, err := search.NewDirectorySearcher(c.dirs[v])
			if err != nil {
				t.Fatal(err)
			}
			defer s.Close()
			srv := &Server{Searcher: s, Top: Top, HTML: true, Print: print, Version: "verif"}
			mux[v], err = NewMux(srv)
			if err != nil {
				t.Fatal(err)
			}
		}
		for _, rq := range c.requests() {
			pair := [2]int{id, id + 1}
			twin := [2]int{id + 1, id}
			if rq.kind == "solo" {
				twin = pair
			}
			for v := 0; v < 2; v++ {
				rec := httptest.NewRecorder()
				req := httptest.NewRequest("GET", rq.path[v], nil)
				mux[v].ServeHTTP(rec, req)
				res := rec.Result()
				body, _ := io.ReadAll(res.Body)
				ct := res.Header.Get("Content-Type")
				if ct == "" {
					ct = http.DetectContentType(body)
				}
				if d := os.Getenv("VERIF_C36_DUMP"); d != "" {
					os.WriteFile(filepath.Join(d, fmt.Sprintf("page%d.html", pair[v])), body, 0o644)
				}
				toks, nbad, ndata := []c36M{}, 0, 0
				isHTML := strings.HasPrefix(ct, "text/html")
				if isHTML {
					toks, nbad, ndata = c36Tokens(&c.sites, v, body)
				}
				head := string(body)
				if len(head) > 60 {
					head = head[:60]
				}
				tr.Emit(c36M{"ev": "page", "id": pair[v], "twin": twin[v], "variant": []string{"payload", "benign"}[v],
					"kind": rq.kind, "tmpl": rq.tmpl, "print": print, "status": res.StatusCode, "html": isHTML,
					"nosniff": res.Header.Get("X-Content-Type-Options") == "nosniff",
					"head": strings.ToValidUTF8(head, "?"),
					"tfail": strings.HasPrefix(head, "template:") || strings.HasPrefix(head, "html/template") || strings.Contains(string(body), "error calling") || strings.Contains(string(body), "executing \""), "path": strings.ToValidUTF8(rq.path[v], "?"),
					"toks": toks, "nbad": nbad, "ndata": ndata})
			}
			id += 2
		}
	}
	// URL templates that parse but fail when executed (the builder only parses them)
	{
		dir := filepath.Join(base, "tplfail")
		os.MkdirAll(dir, 0o755)
		for ri, tpls := range [][3]string{
			{"https://example.com/{{.Path}}", "#L{{.LineNumber}}", "https://example.com/c/{{.Version}}"},
			{"{{.Path.Nope}}", "{{.LineNumber.Nope}}", "{{.Nope}}"},
		} {
			sb, err := index.NewShardBuilder(&zoekt.Repository{Name: fmt.Sprintf("tpl/r%d", ri), ID: uint32(50 + ri),
				FileURLTemplate: tpls[0], LineFragmentTemplate: tpls[1], CommitURLTemplate: tpls[2],
				Branches: []zoekt.RepositoryBranch{{Name: "main", Version: "v1"}}})
			if err != nil {
				t.Fatalf("NewShardBuilder: %v", err)
			}
			sb.Add(index.Document{Name: "f.txt", Content: []byte("one needle line\n"), Branches: []string{"main"}})
			f, _ := os.Create(filepath.Join(dir, fmt.Sprintf("t%d_v16.00000.zoekt", ri)))
			if err := sb.Write(f); err != nil {
				t.Fatal(err)
			}
			f.Close()
		}
		s, err := search.NewDirectorySearcher(dir)
		if err != nil {
			t.Fatal(err)
		}
		defer s.Close()
		mux, err := NewMux(&Server{Searcher: s, Top: Top, HTML: true, Version: "verif"})
		if err != nil {
			t.Fatal(err)
		}
		for _, rq := range []c36Req{{"corpus", "results", [2]string{"/search?q=needle"}}, {"corpus", "repolist", [2]string{"/search?q=r:"}},
			{"corpus", "repolist", [2]string{"/search?q=r:r0"}}} {
			rec := httptest.NewRecorder()
			mux.ServeHTTP(rec, httptest.NewRequest("GET", rq.path[0], nil))
			res := rec.Result()
			body, _ := io.ReadAll(res.Body)
			ct := res.Header.Get("Content-Type")
			if ct == "" {
				ct = http.DetectContentType(body)
			}
			isHTML := strings.HasPrefix(ct, "text/html")
			toks := []c36M{}
			if isHTML {
				toks, _, _ = c36Tokens(&c.sites, 1, body)
			}
			head := string(body)
			if len(head) > 60 {
				head = head[:60]
			}
			tr.Emit(c36M{"ev": "page", "id": id, "twin": id, "variant": "benign", "kind": rq.kind, "tmpl": rq.tmpl, "print": false,
				"status": res.StatusCode, "html": isHTML, "nosniff": res.Header.Get("X-Content-Type-Options") == "nosniff",
				"head": head, "tfail": strings.HasPrefix(head, "template:") || strings.Contains(string(body), "executing \""),
				"path": "tplfail:" + rq.path[0], "toks": toks, "nbad": 0, "ndata": 0})
			id++
		}
	}
	b, _ := json.Marshal(len(c.sites.vals[0]))
	t.Logf("c36: %d pages, %s sites", id, b)
}
