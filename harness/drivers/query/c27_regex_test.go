//go:build verif

package query_test

import (
	"fmt"
	"math/rand"
	"regexp/syntax"
	"strings"
	"testing"
	"unicode/utf8"

	"github.com/grafana/regexp"

	"github.com/sourcegraph/zoekt/internal/syntaxutil"
	"github.com/sourcegraph/zoekt/internal/verifkit"
	"github.com/sourcegraph/zoekt/internal/verifkit/corpus"
	"github.com/sourcegraph/zoekt/query"
)

// C27: for each pattern: AST of the parsed pattern (oracle input), and what the real engine finds
// on every subject for (0) the pattern itself, (1) Parse(RegexpString(re)), (2) OptimizeRegexp(re).

var c27Sigma = []rune{'a', 'b', 'A', '\n', 'é'}

func c27Subjects(maxLen int) []string {
	res := []string{""}
	prev := []string{""}
	for l := 1; l <= maxLen; l++ {
		var cur []string
		for _, p := range prev {
			for _, r := range c27Sigma {
				cur = append(cur, p+string(r))
			}
		}
		res = append(res, cur...)
		prev = cur
	}
	return res
}

func c27RunePos(s string, b int) int { return utf8.RuneCountInString(s[:b]) }

func c27First(re *regexp.Regexp, subjects []string) [][]int {
	res := make([][]int, 0, len(subjects))
	for _, s := range subjects {
		loc := re.FindStringIndex(s)
		if loc == nil {
			res = append(res, []int{-1, -1})
		} else {
			res = append(res, []int{c27RunePos(s, loc[0]), c27RunePos(s, loc[1])})
		}
	}
	return res
}

func c27All(re *regexp.Regexp, subjects []string) [][][]int {
	res := make([][][]int, 0, len(subjects))
	for _, s := range subjects {
		one := [][]int{}
		for _, loc := range re.FindAllStringIndex(s, -1) {
			one = append(one, []int{c27RunePos(s, loc[0]), c27RunePos(s, loc[1])})
		}
		res = append(res, one)
	}
	return res
}

// c27Gen builds pattern sources: skeletons over small atoms, depth <= 3.
func c27Gen(rng *rand.Rand, depth int) string {
	atoms := []string{"a", "b", "A", ".", "[ab]", "[^a]", `\n`, `\x00`, "é", "^", "$", `\A`, `\z`, `\b`, `\B`, "", "ab", "aA", "[a-b]", `[^\n]`, "(?i:a)", "(?i:é)", "[[:alpha:]]", `\w`, `\W`, `\s`, `\d`}
	if depth <= 0 || rng.Intn(4) == 0 {
		return atoms[rng.Intn(len(atoms))]
	}
	sub := func() string { return c27Gen(rng, depth-1) }
	grp := func(s string) string {
		switch rng.Intn(4) {
		case 0:
			return "(" + s + ")"
		case 1:
			return "(?P<n>" + s + ")"
		default:
			return "(?:" + s + ")"
		}
	}
	switch rng.Intn(14) {
	case 0, 1, 2:
		return sub() + sub()
	case 3, 4:
		return grp(sub() + "|" + sub())
	case 5:
		return grp(sub()) + []string{"*", "+", "?", "*?", "+?", "??"}[rng.Intn(6)]
	case 6:
		return grp(sub()) + []string{"{2}", "{1,2}", "{0,2}", "{2,}", "{0,}", "{1,2}?", "{2,}?"}[rng.Intn(7)]
	case 7:
		return "(?i)" + sub()
	case 8:
		return "(?s)" + sub()
	case 9:
		return "(?m)" + sub()
	case 10:
		return "(?U)" + sub()
	case 11:
		return grp(sub())
	case 12:
		return sub() + "|" + sub()
	default:
		return sub() + sub() + sub()
	}
}

// c27ClassPool: characters that matter to a class printer (separators of its own syntax, range
// neighbours, non-printable, non-ASCII, fold orbits with three members, the last code points).
var c27ClassPool = []rune{0, '\t', '\n', '+', ',', '-', '.', '0', 'A', 'K', '[', '\\', ']', '^', 'a', 'b', 'k', 'z', 0x7f, 'é', 0x212a, 0x10fffe, 0x10ffff}

func c27ClassChar(r rune) string {
	switch {
	case r >= 'a' && r <= 'z' || r >= 'A' && r <= 'Z' || r >= '0' && r <= '9':
		return string(r)
	case r < 0x80:
		return fmt.Sprintf(`\x%02x`, r)
	default:
		return fmt.Sprintf(`\x{%x}`, r)
	}
}

// c27GenClass builds a bracket expression from pool characters, ranges between them and named classes.
func c27GenClass(rng *rand.Rand) string {
	var b strings.Builder
	b.WriteString("[")
	if rng.Intn(3) == 0 {
		b.WriteString("^")
	}
	for n := 1 + rng.Intn(4); n > 0; n-- {
		switch k := rng.Intn(10); {
		case k < 5:
			b.WriteString(c27ClassChar(c27ClassPool[rng.Intn(len(c27ClassPool))]))
		case k < 9:
			i, j := rng.Intn(len(c27ClassPool)), rng.Intn(len(c27ClassPool))
			if i > j {
				i, j = j, i
			}
			lo, hi := c27ClassPool[i], c27ClassPool[j]
			if rng.Intn(2) == 0 && lo < hi {
				hi = lo + 1 // two-element ranges
			}
			b.WriteString(c27ClassChar(lo) + "-" + c27ClassChar(hi))
		default:
			b.WriteString([]string{`\d`, `\w`, `\s`, `[:alpha:]`, `[:punct:]`, `\D`, `\pL`, `[:^upper:]`}[rng.Intn(8)])
		}
	}
	b.WriteString("]")
	return b.String()
}

func c27GenClassPattern(rng *rand.Rand, _ int) string {
	c := func() string { return c27GenClass(rng) }
	switch rng.Intn(8) {
	case 0, 1, 2:
		return c()
	case 3:
		return c() + c()
	case 4:
		return "(?i)" + c()
	case 5:
		return "(" + c() + ")+"
	case 6:
		return c() + "|a" + c()
	default:
		return "(?i:" + c() + ")" + c() + "?"
	}
}

// TestVerif_C27_Classes: the same three-way comparison for bracket expressions, over subjects whose
// alphabet is the pool the classes are built from.
func TestVerif_C27_Classes(t *testing.T) {
	saved := c27Sigma
	defer func() { c27Sigma = saved }()
	c27Sigma = c27ClassPool
	c27Run(t, c27Subjects(verifkit.EnvInt("VERIF_SUBJLEN", 2)), c27GenClassPattern)
}

func TestVerif_C27_Regex(t *testing.T) {
	c27Run(t, c27Subjects(verifkit.EnvInt("VERIF_SUBJLEN", 3)), func(rng *rand.Rand, d int) string { return c27Gen(rng, d) })
}

func c27Run(t *testing.T, subjects []string, gen func(*rand.Rand, int) string) {
	tr := verifkit.Open(t)
	defer tr.Close()
	tr.Emit(corpus.FoldEvent())
	sj := [][]int{}
	for _, s := range subjects {
		sj = append(sj, verifkit.Runes(s))
	}
	tr.Emit(verifkit.M{"ev": "subjects", "list": sj})
	n := verifkit.EnvInt("VERIF_PATTERNS", verifkit.Pick(150, 1500))
	seen := map[string]bool{}
	emitted := 0
	for i := 0; emitted < n && i < 50*n; i++ {
		rng := verifkit.Rng(int64(i))
		src := gen(rng, 1+rng.Intn(3))
		if seen[src] {
			continue
		}
		seen[src] = true
		re, err := syntax.Parse(src, syntax.Perl)
		if err != nil {
			continue
		}
		re0, err := regexp.Compile(src)
		if err != nil {
			continue
		}
		ev := verifkit.M{"ev": "re", "src": src, "ast": corpus.RegexJSON(re), "printed": "", "print_ok": true, "opt_ok": true,
			"r0": c27First(re0, subjects), "all0": c27All(re0, subjects), "r1": [][]int{}, "r2": [][]int{}}
		printed := syntaxutil.RegexpString(re)
		ev["printed"] = printed
		if re1, err := regexp.Compile(printed); err != nil || strings.Contains(printed, "<invalid op") {
			ev["print_ok"] = false
		} else {
			ev["r1"] = c27First(re1, subjects)
		}
		var opt *syntax.Regexp
		if p := verifkit.Catch(func() { opt = query.OptimizeRegexp(re, syntax.Perl) }); p != nil || opt == nil {
			ev["opt_ok"] = false
		} else if re2, err := regexp.Compile(opt.String()); err != nil {
			// the optimised AST is compiled through the standard printer, as zoekt does not print it with its own
			ev["opt_ok"] = false
		} else {
			ev["r2"] = c27First(re2, subjects)
		}
		tr.Emit(ev)
		emitted++
	}
}
