//go:build verif

package query_test

import (
	"math/rand"
	"regexp/syntax"
	"strings"
	"testing"
	"unicode/utf8"

	"github.com/grafana/regexp"

	"github.com/sourcegraph/zoekt/internal/syntaxutil"
	"github.com/sourcegraph/zoekt/internal/verifkit"
	"github.com/sourcegraph/zoekt/internal/verifkit/corpus"
	"github.com/sourcegraph/zoekt/query"
)

// C27: for each pattern: AST of the parsed pattern (oracle input), and what the real engine finds
// on every subject for (0) the pattern itself, (1) Parse(RegexpString(re)), (2) OptimizeRegexp(re).

var c27Sigma = []rune{'a', 'b', 'A', '\n', 'é'}

func c27Subjects(maxLen int) []string {
	res := []string{""}
	prev := []string{""}
	for l := 1; l <= maxLen; l++ {
		var cur []string
		for _, p := range prev {
			for _, r := range c27Sigma {
				cur = append(cur, p+string(r))
			}
		}
		res = append(res, cur...)
		prev = cur
	}
	return res
}

func c27RunePos(s string, b int) int { return utf8.RuneCountInString(s[:b]) }

func c27First(re *regexp.Regexp, subjects []string) [][]int {
	res := make([][]int, 0, len(subjects))
	for _, s := range subjects {
		loc := re.FindStringIndex(s)
		if loc == nil {
			res = append(res, []int{-1, -1})
		} else {
			res = append(res, []int{c27RunePos(s, loc[0]), c27RunePos(s, loc[1])})
		}
	}
	return res
}

func c27All(re *regexp.Regexp, subjects []string) [][][]int {
	res := make([][][]int, 0, len(subjects))
	for _, s := range subjects {
		one := [][]int{}
		for _, loc := range re.FindAllStringIndex(s, -1) {
			one = append(one, []int{c27RunePos(s, loc[0]), c27RunePos(s, loc[1])})
		}
		res = append(res, one)
	}
	return res
}

// c27Gen builds pattern sources: skeletons over small atoms, depth <= 3.
func c27Gen(rng *rand.Rand, depth int) string {
	atoms := []string{"a", "b", "A", ".", "[ab]", "[^a]", `\n`, `\x00`, "é", "^", "$", `\A`, `\z`, `\b`, `\B`, "", "ab", "aA", "[a-b]", `[^\n]`, "(?i:a)", "(?i:é)", "[[:alpha:]]", `\w`, `\W`, `\s`, `\d`}
	if depth <= 0 || rng.Intn(4) == 0 {
		return atoms[rng.Intn(len(atoms))]
	}
	sub := func() string { return c27Gen(rng, depth-1) }
	grp := func(s string) string {
		switch rng.Intn(4) {
		case 0:
			return "(" + s + ")"
		case 1:
			return "(?P<n>" + s + ")"
		default:
			return "(?:" + s + ")"
		}
	}
	switch rng.Intn(14) {
	case 0, 1, 2:
		return sub() + sub()
	case 3, 4:
		return grp(sub() + "|" + sub())
	case 5:
		return grp(sub()) + []string{"*", "+", "?", "*?", "+?", "??"}[rng.Intn(6)]
	case 6:
		return grp(sub()) + []string{"{2}", "{1,2}", "{0,2}", "{2,}", "{0,}", "{1,2}?", "{2,}?"}[rng.Intn(7)]
	case 7:
		return "(?i)" + sub()
	case 8:
		return "(?s)" + sub()
	case 9:
		return "(?m)" + sub()
	case 10:
		return "(?U)" + sub()
	case 11:
		return grp(sub())
	case 12:
		return sub() + "|" + sub()
	default:
		return sub() + sub() + sub()
	}
}

func TestVerif_C27_Regex(t *testing.T) {
	tr := verifkit.Open(t)
	defer tr.Close()
	tr.Emit(corpus.FoldEvent())
	maxLen := verifkit.EnvInt("VERIF_SUBJLEN", 3)
	subjects := c27Subjects(maxLen)
	sj := [][]int{}
	for _, s := range subjects {
		sj = append(sj, verifkit.Runes(s))
	}
	tr.Emit(verifkit.M{"ev": "subjects", "list": sj})
	n := verifkit.EnvInt("VERIF_PATTERNS", verifkit.Pick(150, 1500))
	seen := map[string]bool{}
	emitted := 0
	for i := 0; emitted < n && i < 50*n; i++ {
		rng := verifkit.Rng(int64(i))
		src := c27Gen(rng, 1+rng.Intn(3))
		if seen[src] {
			continue
		}
		seen[src] = true
		re, err := syntax.Parse(src, syntax.Perl)
		if err != nil {
			continue
		}
		re0, err := regexp.Compile(src)
		if err != nil {
			continue
		}
		ev := verifkit.M{"ev": "re", "src": src, "ast": corpus.RegexJSON(re), "printed": "", "print_ok": true, "opt_ok": true,
			"r0": c27First(re0, subjects), "all0": c27All(re0, subjects), "r1": [][]int{}, "r2": [][]int{}}
		printed := syntaxutil.RegexpString(re)
		ev["printed"] = printed
		if re1, err := regexp.Compile(printed); err != nil || strings.Contains(printed, "<invalid op") {
			ev["print_ok"] = false
		} else {
			ev["r1"] = c27First(re1, subjects)
		}
		var opt *syntax.Regexp
		if p := verifkit.Catch(func() { opt = query.OptimizeRegexp(re, syntax.Perl) }); p != nil || opt == nil {
			ev["opt_ok"] = false
		} else if re2, err := regexp.Compile(opt.String()); err != nil {
			// the optimised AST is compiled through the standard printer, as zoekt does not print it with its own
			ev["opt_ok"] = false
		} else {
			ev["r2"] = c27First(re2, subjects)
		}
		tr.Emit(ev)
		emitted++
	}
}
