//go:build verif

package query_test

// C26: drivers for the three compact binary encodings (FileNameSet, BranchesRepos, ReposMap).
//
//   TestVerif_C26_Blobs      library-made roaring blobs (accepted / refused) = input of Codec.tla
//   TestVerif_C26_RoundTrip  value -> real MarshalBinary -> real UnmarshalBinary, all three logged
//   TestVerif_C26_Garbage    malformed inputs (TLC scripts + seeded random bytes) decoded by the
//                            REAL decoders in child processes under a CPU and memory watchdog
//   TestVerif_C26_Child      the child
//
// Numbers wider than 31 bits are logged as their 8 little-endian bytes, strings as byte lists.

import (
	"bufio"
	"bytes"
	"encoding/binary"
	"encoding/json"
	"fmt"
	"math"
	"math/rand"
	"os"
	"os/exec"
	"runtime/metrics"
	"sort"
	"strconv"
	"strings"
	"sync"
	"syscall"
	"testing"
	"time"

	"github.com/RoaringBitmap/roaring/v2"

	"github.com/sourcegraph/zoekt"
	"github.com/sourcegraph/zoekt/internal/verifkit"
	"github.com/sourcegraph/zoekt/query"
)

var c26Types = []string{"FileNameSet", "BranchesRepos", "ReposMap"}

func c26Bytes(b []byte) []int {
	r := make([]int, len(b))
	for i, x := range b {
		r[i] = int(x)
	}
	return r
}

func c26N64(x uint64) []int {
	var b [8]byte
	binary.LittleEndian.PutUint64(b[:], x)
	return c26Bytes(b[:])
}

// ---------------------------------------------------------------- abstract values

func c26FNS(set map[string]struct{}) []any {
	keys := make([]string, 0, len(set))
	for k := range set {
		keys = append(keys, k)
	}
	sort.Strings(keys)
	res := []any{}
	for _, k := range keys {
		res = append(res, c26Bytes([]byte(k)))
	}
	return res
}

func c26Bitmap(bm *roaring.Bitmap) (blob []int, ids []any) {
	blob, ids = []int{}, []any{}
	if bm == nil {
		return
	}
	if bm.GetSerializedSizeInBytes() > 1<<20 || bm.GetCardinality() > 1<<16 {
		return
	}
	raw, err := bm.ToBytes()
	if err != nil {
		return
	}
	blob = c26Bytes(raw)
	// members as [high 16 bits, low 16 bits]; of a large bitmap only the first and last 32
	arr := bm.ToArray()
	for i, id := range arr {
		if len(arr) <= 64 || i < 32 || i >= len(arr)-32 {
			ids = append(ids, []int{int(id >> 16), int(id & 0xffff)})
		}
	}
	return
}

func c26BR(list []query.BranchRepos) []any {
	res := []any{}
	for _, br := range list {
		blob, ids := c26Bitmap(br.Repos)
		res = append(res, verifkit.M{"b": c26Bytes([]byte(br.Branch)), "r": blob, "ids": ids})
	}
	return res
}

func c26RM(m zoekt.ReposMap) []any {
	ids := make([]uint32, 0, len(m))
	for id := range m {
		ids = append(ids, id)
	}
	sort.Slice(ids, func(i, j int) bool { return ids[i] < ids[j] })
	res := []any{}
	for _, id := range ids {
		e := m[id]
		br := []any{}
		for _, b := range e.Branches {
			br = append(br, verifkit.M{"n": c26Bytes([]byte(b.Name)), "v": c26Bytes([]byte(b.Version))})
		}
		res = append(res, verifkit.M{"id": c26N64(uint64(id)), "sym": e.HasSymbols,
			"t": c26N64(uint64(e.IndexTimeUnix)), "br": br})
	}
	return res
}

// c26Decode calls the real decoder. out: value | error | panic.  The decoders document that
// they do not own the input ("we create a copy of it"): the input buffer is overwritten before
// the decoded value is looked at.
func c26Decode(typ string, input []byte) (out string, dec []any, msg string) {
	in := bytes.Clone(input)
	var render func() []any
	p := verifkit.Catch(func() {
		var err error
		switch typ {
		case "FileNameSet":
			var q query.FileNameSet
			err = q.UnmarshalBinary(in)
			render = func() []any { return c26FNS(q.Set) }
		case "BranchesRepos":
			var q query.BranchesRepos
			err = q.UnmarshalBinary(in)
			render = func() []any { return c26BR(q.List) }
		case "ReposMap":
			var q zoekt.ReposMap
			err = q.UnmarshalBinary(in)
			render = func() []any { return c26RM(q) }
		default:
			panic("c26: unknown type " + typ)
		}
		if err != nil {
			out, msg = "error", err.Error()
		} else {
			out = "value"
		}
	})
	dec = []any{}
	if p != nil {
		return "panic", dec, fmt.Sprint(p)
	}
	for i := range in {
		in[i] = 0xAA
	}
	if out == "value" {
		// rendering a value made from garbage may itself fail (roaring validates lazily):
		// that is not the decoder's outcome; the value is then logged as not renderable
		if p := verifkit.Catch(func() { dec = render() }); p != nil {
			dec, msg = []any{}, "unrenderable: "+fmt.Sprint(p)
		}
	}
	return out, dec, msg
}

// ---------------------------------------------------------------- blobs

func TestVerif_C26_Blobs(t *testing.T) {
	tr := verifkit.Open(t)
	defer tr.Close()
	ser := func(ids ...uint32) []byte {
		b, err := roaring.BitmapOf(ids...).ToBytes()
		if err != nil {
			t.Fatal(err)
		}
		return b
	}
	one := ser(1)
	cands := []struct {
		name string
		b    []byte
	}{
		{"empty", ser()}, {"one", one}, {"two", ser(1, 70000)},
		{"bad-nil", []byte{}}, {"bad-zero", make([]byte, 8)}, {"bad-cut", one[:len(one)-1]},
		{"bad-cookie", []byte{59, 48, 0, 0, 1, 0, 0, 0}},
	}
	for _, c := range cands {
		var err error
		p := verifkit.Catch(func() { _, err = roaring.New().FromBuffer(bytes.Clone(c.b)) })
		tr.Emit(verifkit.M{"ev": "blob", "name": c.name, "bytes": c26Bytes(c.b), "ok": p == nil && err == nil,
			"panicked": p != nil})
	}
}

// ---------------------------------------------------------------- round trip

func c26RandStr(rng *rand.Rand) string {
	var n int
	switch x := rng.Intn(40); {
	case x == 0:
		n = 127 + rng.Intn(3)
	case x == 1:
		n = 300
	case x < 8:
		n = 0
	default:
		n = 1 + rng.Intn(12)
	}
	b := make([]byte, n)
	for i := range b {
		switch rng.Intn(6) {
		case 0:
			b[i] = byte(rng.Intn(256))
		case 1:
			b[i] = []byte{0, 1, 127, 128, 255, '/'}[rng.Intn(6)]
		default:
			b[i] = byte('a' + rng.Intn(26))
		}
	}
	return string(b)
}

func c26RandCount(rng *rand.Rand) int {
	switch x := rng.Intn(60); {
	case x == 0:
		return 128 + rng.Intn(3)
	case x < 6:
		return 0
	default:
		return 1 + rng.Intn(5)
	}
}

func c26RandBitmap(rng *rand.Rand) *roaring.Bitmap {
	bm := roaring.New()
	edges := []uint32{0, 1, 65535, 65536, 1<<31 - 1, 1 << 31, math.MaxUint32}
	switch x := rng.Intn(20); {
	case x == 0:
	case x == 1: // a long run, run-optimised
		lo := uint64(rng.Intn(100000))
		bm.AddRange(lo, lo+uint64(1+rng.Intn(5000)))
		bm.RunOptimize()
	case x == 2 && rng.Intn(3) == 0: // a bitmap container
		base := uint32(rng.Intn(3)) << 16
		for i := 0; i < 5000; i++ {
			bm.Add(base + uint32(rng.Intn(65536)))
		}
	default:
		for i, n := 0, 1+rng.Intn(6); i < n; i++ {
			if rng.Intn(4) == 0 {
				bm.Add(edges[rng.Intn(len(edges))])
			} else {
				bm.Add(uint32(rng.Intn(200000)))
			}
		}
	}
	return bm
}

func c26RandID(rng *rand.Rand) uint32 {
	edges := []uint32{0, 1, 127, 128, 16383, 16384, 1<<31 - 1, 1 << 31, math.MaxUint32}
	if rng.Intn(3) == 0 {
		return edges[rng.Intn(len(edges))]
	}
	return uint32(rng.Intn(100000))
}

func c26RandTime(rng *rand.Rand) int64 {
	edges := []int64{0, 1, -1, math.MaxInt64, math.MinInt64, 1 << 31, 1<<32 - 1, 1700000000}
	switch rng.Intn(4) {
	case 0:
		return edges[rng.Intn(len(edges))]
	case 1:
		return int64(rng.Uint64())
	default:
		return 1600000000 + int64(rng.Intn(200000000))
	}
}

func c26RandRM(rng *rand.Rand) zoekt.ReposMap {
	m := zoekt.ReposMap{}
	for i, n := 0, c26RandCount(rng); i < n; i++ {
		e := zoekt.MinimalRepoListEntry{HasSymbols: rng.Intn(2) == 0, IndexTimeUnix: c26RandTime(rng)}
		nb := rng.Intn(4)
		if rng.Intn(50) == 0 {
			nb = 130
		}
		for k := 0; k < nb; k++ {
			e.Branches = append(e.Branches, zoekt.RepositoryBranch{Name: c26RandStr(rng), Version: c26RandStr(rng)})
		}
		m[c26RandID(rng)] = e
	}
	return m
}

type c26Val struct {
	typ string
	fns *query.FileNameSet
	br  *query.BranchesRepos
	rm  *zoekt.ReposMap
}

func (v c26Val) abstract() []any {
	switch v.typ {
	case "FileNameSet":
		return c26FNS(v.fns.Set)
	case "BranchesRepos":
		return c26BR(v.br.List)
	}
	return c26RM(*v.rm)
}

func (v c26Val) marshal() ([]byte, error) {
	switch v.typ {
	case "FileNameSet":
		return v.fns.MarshalBinary()
	case "BranchesRepos":
		return v.br.MarshalBinary()
	}
	return v.rm.MarshalBinary()
}

func c26RoundTrip(tr *verifkit.Trace, v c26Val, src string) {
	var enc []byte
	var err error
	encout := "ok"
	if p := verifkit.Catch(func() { enc, err = v.marshal() }); p != nil {
		encout = "panic"
	} else if err != nil {
		encout = "error"
	}
	before := v.abstract()
	out, dec, msg := "none", []any{}, ""
	if encout == "ok" {
		out, dec, msg = c26Decode(v.typ, enc)
	}
	tr.Emit(verifkit.M{"ev": "rt", "typ": v.typ, "src": src, "v": before, "encout": encout, "bytes": c26Bytes(enc),
		"out": out, "dec": dec, "msg": msg})
}

func TestVerif_C26_RoundTrip(t *testing.T) {
	tr := verifkit.Open(t)
	defer tr.Close()
	fns := func(set map[string]struct{}) c26Val { return c26Val{typ: "FileNameSet", fns: &query.FileNameSet{Set: set}} }
	brs := func(l []query.BranchRepos) c26Val { return c26Val{typ: "BranchesRepos", br: &query.BranchesRepos{List: l}} }
	rms := func(m zoekt.ReposMap) c26Val { return c26Val{typ: "ReposMap", rm: &m} }

	// small exhaustive families
	strs := []string{"", "a", "bc", "\xff\x00"}
	c26RoundTrip(tr, fns(nil), "small")
	for mask := 0; mask < 1<<len(strs); mask++ {
		set := map[string]struct{}{}
		for i, s := range strs {
			if mask&(1<<i) != 0 {
				set[s] = struct{}{}
			}
		}
		c26RoundTrip(tr, fns(set), "small")
	}
	items := func() []query.BranchRepos {
		return []query.BranchRepos{{Branch: "", Repos: roaring.New()}, {Branch: "m", Repos: roaring.BitmapOf(1)},
			{Branch: "dev", Repos: roaring.BitmapOf(1, 70000)}}
	}
	c26RoundTrip(tr, brs(nil), "small")
	c26RoundTrip(tr, brs([]query.BranchRepos{}), "small")
	for i := 0; i < 3; i++ {
		c26RoundTrip(tr, brs([]query.BranchRepos{items()[i]}), "small")
		for j := 0; j < 3; j++ {
			c26RoundTrip(tr, brs([]query.BranchRepos{items()[i], items()[j]}), "small")
		}
	}
	entries := []zoekt.MinimalRepoListEntry{
		{},
		{HasSymbols: true, IndexTimeUnix: 5, Branches: []zoekt.RepositoryBranch{{Name: "HEAD", Version: "v1"}}},
		{HasSymbols: true, IndexTimeUnix: 1700000000, Branches: []zoekt.RepositoryBranch{{Name: "HEAD"}, {Name: "bc", Version: "a"}}},
	}
	c26RoundTrip(tr, rms(nil), "small")
	rmIDs := []uint32{1, 300, math.MaxUint32}
	for code := 0; code < 4*4*4; code++ {
		m := zoekt.ReposMap{}
		for k, id := range rmIDs {
			if x := (code >> (2 * k)) & 3; x > 0 {
				m[id] = entries[x-1]
			}
		}
		c26RoundTrip(tr, rms(m), "small")
	}

	// seeded random
	n := verifkit.EnvInt("C26_RANDOM", verifkit.Pick(300, 4000))
	for i := 0; i < n; i++ {
		rng := verifkit.Rng(int64(i))
		set := map[string]struct{}{}
		for k, c := 0, c26RandCount(rng); k < c; k++ {
			set[c26RandStr(rng)] = struct{}{}
		}
		c26RoundTrip(tr, fns(set), "random")

		var l []query.BranchRepos
		for k, c := 0, c26RandCount(rng); k < c; k++ {
			bm := c26RandBitmap(rng)
			if c > 100 { // many items: keep them small
				bm = roaring.BitmapOf(uint32(k))
			}
			l = append(l, query.BranchRepos{Branch: c26RandStr(rng), Repos: bm})
		}
		c26RoundTrip(tr, brs(l), "random")

		c26RoundTrip(tr, rms(c26RandRM(rng)), "random")
	}
}

// ---------------------------------------------------------------- garbage

type c26Script struct {
	Typ   string `json:"typ"`
	Cls   string `json:"cls"`
	Kind  string `json:"kind"`
	Sub   string `json:"sub"`
	Bytes []int  `json:"bytes"`
}

func (s c26Script) raw() []byte {
	b := make([]byte, len(s.Bytes))
	for i, x := range s.Bytes {
		b[i] = byte(x)
	}
	return b
}

type c26Result struct {
	I   int    `json:"i"`
	Out string `json:"out"`
	Dec []any  `json:"dec"`
	Msg string `json:"msg"`
}

// seeded unstructured inputs: random bytes behind a plausible header, and byte-level damage of
// valid encodings of random values
func c26RandomGarbage(n int) []c26Script {
	var res []c26Script
	small := []byte{0, 0, 1, 1, 2, 3, 4, 8, 58, 48, 97, 127, 128, 129, 255}
	for i := 0; i < n; i++ {
		rng := verifkit.Rng(1000000 + int64(i))
		typ := c26Types[rng.Intn(3)]
		var b []byte
		switch rng.Intn(3) {
		case 0: // header + biased bytes
			ver := byte(1)
			if typ == "ReposMap" {
				ver = byte(1 + rng.Intn(2))
			}
			b = append(b, ver)
			for k, l := 0, rng.Intn(24); k < l; k++ {
				if rng.Intn(5) == 0 {
					b = append(b, byte(rng.Intn(256)))
				} else {
					b = append(b, small[rng.Intn(len(small))])
				}
			}
		case 1: // damaged valid encoding
			var enc []byte
			switch typ {
			case "FileNameSet":
				set := map[string]struct{}{}
				for k, c := 0, rng.Intn(4); k < c; k++ {
					set[c26RandStr(rng)] = struct{}{}
				}
				enc, _ = (&query.FileNameSet{Set: set}).MarshalBinary()
			case "BranchesRepos":
				var l []query.BranchRepos
				for k, c := 0, rng.Intn(3); k < c; k++ {
					l = append(l, query.BranchRepos{Branch: c26RandStr(rng), Repos: c26RandBitmap(rng)})
				}
				enc, _ = query.BranchesRepos{List: l}.MarshalBinary()
			default:
				m := c26RandRM(rng)
				enc, _ = (&m).MarshalBinary()
			}
			if len(enc) > 400 {
				enc = enc[:400]
			}
			b = bytes.Clone(enc)
			for k, c := 0, 1+rng.Intn(3); k < c && len(b) > 0; k++ {
				p := rng.Intn(len(b))
				switch rng.Intn(4) {
				case 0:
					b[p] = byte(rng.Intn(256))
				case 1:
					b[p] = small[rng.Intn(len(small))]
				case 2:
					b = b[:p]
				default:
					b = append(b[:p:p], append([]byte{small[rng.Intn(len(small))]}, b[p:]...)...)
				}
			}
		default: // plain random bytes
			b = make([]byte, rng.Intn(16))
			rng.Read(b)
		}
		res = append(res, c26Script{Typ: typ, Cls: "random", Kind: "none", Sub: "none", Bytes: c26Bytes(b)})
	}
	return res
}

func TestVerif_C26_Garbage(t *testing.T) {
	var scripts []c26Script
	for _, raw := range verifkit.ReadScripts(t) {
		var s c26Script
		if err := json.Unmarshal(raw, &s); err != nil {
			t.Fatal(err)
		}
		scripts = append(scripts, s)
	}
	tr := verifkit.Open(t)
	defer tr.Close()
	scripts = append(scripts, c26RandomGarbage(verifkit.EnvInt("C26_RANDOM", verifkit.Pick(300, 5000)))...)

	work := os.Getenv("VERIF_WORK")
	if work == "" {
		work = t.TempDir()
	}
	inPath := work + "/c26_child_in.ndjson"
	f, err := os.Create(inPath)
	if err != nil {
		t.Fatal(err)
	}
	w := bufio.NewWriter(f)
	for _, s := range scripts {
		b, _ := json.Marshal(s)
		w.Write(b)
		w.WriteByte('\n')
	}
	w.Flush()
	f.Close()

	nw := verifkit.EnvInt("C26_WORKERS", 8)
	results := make([]*c26Result, len(scripts))
	var mu sync.Mutex
	var wg sync.WaitGroup
	var firstErr error
	children := 0
	for wk := 0; wk < nw; wk++ {
		wg.Add(1)
		go func(wk int) {
			defer wg.Done()
			from := wk
			for run := 0; from < len(scripts); run++ {
				outPath := fmt.Sprintf("%s/c26_child_%d_%d.out", work, wk, run)
				cmd := exec.Command(os.Args[0], "-test.run", "^TestVerif_C26_Child$", "-test.count=1", "-test.timeout", "0")
				cmd.Env = append(os.Environ(), "C26_CHILD_IN="+inPath, "C26_CHILD_OUT="+outPath,
					"C26_CHILD_FROM="+strconv.Itoa(from), "C26_CHILD_STRIDE="+strconv.Itoa(nw))
				var stderr bytes.Buffer
				cmd.Stdout = &stderr
				cmd.Stderr = &stderr
				runErr := cmd.Run()
				last, got := c26ReadChild(outPath)
				mu.Lock()
				children++
				for i, r := range got {
					results[i] = r
				}
				mu.Unlock()
				if last < 0 {
					mu.Lock()
					if firstErr == nil {
						firstErr = fmt.Errorf("child made no progress (from %d): %v\n%s", from, runErr, c26Tail(stderr.String()))
					}
					mu.Unlock()
					return
				}
				if _, ok := got[last]; !ok {
					// the process died while decoding input `last`
					out := "died"
					se := stderr.String()
					if strings.Contains(se, "out of memory") || strings.Contains(se, "cannot allocate memory") {
						out = "oom"
					}
					mu.Lock()
					results[last] = &c26Result{I: last, Out: out, Dec: []any{}, Msg: c26Fatal(se)}
					mu.Unlock()
				}
				from = last + nw
			}
		}(wk)
	}
	wg.Wait()
	if firstErr != nil {
		t.Fatal(firstErr)
	}
	for i, s := range scripts {
		r := results[i]
		if r == nil {
			t.Fatalf("no result for input %d", i)
		}
		if r.Dec == nil {
			r.Dec = []any{}
		}
		tr.Emit(verifkit.M{"ev": "g", "typ": s.Typ, "cls": s.Cls, "kind": s.Kind, "sub": s.Sub, "inp": s.Bytes,
			"out": r.Out, "dec": r.Dec, "msg": r.Msg})
	}
	t.Logf("c26: %d inputs, %d child processes", len(scripts), children)
}

func c26Tail(s string) string {
	if len(s) > 2000 {
		return s[len(s)-2000:]
	}
	return s
}

// first "fatal error"/"panic" line of a dead child's stderr
func c26Fatal(se string) string {
	for _, l := range strings.Split(se, "\n") {
		if strings.HasPrefix(l, "fatal error:") || strings.HasPrefix(l, "panic:") || strings.HasPrefix(l, "runtime:") {
			return l
		}
	}
	return c26Tail(se)
}

// journal of a child: "B <i>" before input i is decoded, "R <json>" after
func c26ReadChild(path string) (last int, got map[int]*c26Result) {
	last, got = -1, map[int]*c26Result{}
	f, err := os.Open(path)
	if err != nil {
		return
	}
	defer f.Close()
	sc := bufio.NewScanner(f)
	sc.Buffer(make([]byte, 1<<20), 1<<28)
	for sc.Scan() {
		l := sc.Text()
		switch {
		case strings.HasPrefix(l, "B "):
			if n, err := strconv.Atoi(l[2:]); err == nil {
				last = n
			}
		case strings.HasPrefix(l, "R "):
			var r c26Result
			if json.Unmarshal([]byte(l[2:]), &r) == nil {
				got[r.I] = &r
			}
		}
	}
	return
}

func c26CPU() time.Duration {
	var ru syscall.Rusage
	syscall.Getrusage(syscall.RUSAGE_SELF, &ru)
	return time.Duration(ru.Utime.Nano() + ru.Stime.Nano())
}

func c26Mem() uint64 {
	s := []metrics.Sample{{Name: "/memory/classes/total:bytes"}}
	metrics.Read(s)
	return s[0].Value.Uint64()
}

func c26VmSize() uint64 {
	b, _ := os.ReadFile("/proc/self/status")
	for _, l := range strings.Split(string(b), "\n") {
		if strings.HasPrefix(l, "VmSize:") {
			f := strings.Fields(l)
			if len(f) >= 2 {
				kb, _ := strconv.ParseUint(f[1], 10, 64)
				return kb << 10
			}
		}
	}
	return 0
}

// The child decodes its share of the inputs one after the other.  A watchdog (this goroutine)
// gives every input C26_CPU_MS of process CPU time (not wall time: independent of machine
// load) and C26_MEM_MB of additional memory; beyond that the outcome is "hang" / "oom" and the
// process exits (the decoding goroutine cannot be stopped).  An address-space limit turns a
// single runaway allocation into the runtime's fatal "out of memory", seen by the parent.
func TestVerif_C26_Child(t *testing.T) {
	inPath, outPath := os.Getenv("C26_CHILD_IN"), os.Getenv("C26_CHILD_OUT")
	if inPath == "" || outPath == "" {
		t.Skip("child of TestVerif_C26_Garbage")
	}
	from, stride := verifkit.EnvInt("C26_CHILD_FROM", 0), verifkit.EnvInt("C26_CHILD_STRIDE", 1)
	cpuLimit := time.Duration(verifkit.EnvInt("C26_CPU_MS", 500)) * time.Millisecond
	memLimit := uint64(verifkit.EnvInt("C26_MEM_MB", 256)) << 20
	wallLimit := 120 * time.Second

	raw, err := os.ReadFile(inPath)
	if err != nil {
		t.Fatal(err)
	}
	var scripts []c26Script
	for _, l := range bytes.Split(raw, []byte("\n")) {
		if len(l) == 0 {
			continue
		}
		var s c26Script
		if err := json.Unmarshal(l, &s); err != nil {
			t.Fatal(err)
		}
		scripts = append(scripts, s)
	}
	out, err := os.OpenFile(outPath, os.O_CREATE|os.O_WRONLY|os.O_APPEND, 0o644)
	if err != nil {
		t.Fatal(err)
	}
	defer out.Close()
	if vm := c26VmSize(); vm > 0 {
		lim := vm + 4*memLimit
		syscall.Setrlimit(syscall.RLIMIT_AS, &syscall.Rlimit{Cur: lim, Max: lim})
	}
	emit := func(r c26Result) {
		b, _ := json.Marshal(r)
		out.Write(append(append([]byte("R "), b...), '\n'))
	}
	for i := from; i < len(scripts); i += stride {
		s := scripts[i]
		in := s.raw()
		fmt.Fprintf(out, "B %d\n", i)
		cpu0, mem0, t0 := c26CPU(), c26Mem(), time.Now()
		done := make(chan c26Result, 1)
		go func() {
			o, dec, msg := c26Decode(s.Typ, in)
			done <- c26Result{I: i, Out: o, Dec: dec, Msg: msg}
		}()
		tick := time.NewTicker(2 * time.Millisecond)
	wait:
		for {
			select {
			case r := <-done:
				emit(r)
				break wait
			case <-tick.C:
				verdict := ""
				if m := c26Mem(); m > mem0 && m-mem0 > memLimit {
					verdict = "oom"
				} else if c26CPU()-cpu0 > cpuLimit || time.Since(t0) > wallLimit {
					verdict = "hang"
				}
				if verdict != "" {
					emit(c26Result{I: i, Out: verdict, Dec: []any{},
						Msg: fmt.Sprintf("cpu %v, memory +%d MB, wall %v", c26CPU()-cpu0, (c26Mem()-mem0)>>20, time.Since(t0).Round(time.Millisecond))})
					out.Close()
					os.Exit(3)
				}
			}
		}
		tick.Stop()
	}
}
