//go:build verif

package query

import "fmt"

// C05 bridge: the rewrites and the parse-time case-scope wrapper are package-private; the driver
// (package query_test, which may import the helpers that themselves import query) reaches them
// through these exported test-only names.  Nothing here decides anything.

// VerifC05EvalConstants is query.evalConstants.
func VerifC05EvalConstants(q Q) Q { return evalConstants(q) }

// VerifC05Flatten is one pass of query.flatten.
func VerifC05Flatten(q Q) Q {
	r, _ := flatten(q)
	return r
}

// VerifC05ScopeChild recognises the parse-time wrapper caseScopeQ.
func VerifC05ScopeChild(q Q) (Q, bool) {
	if s, ok := q.(*caseScopeQ); ok {
		return s.Child, true
	}
	return nil, false
}

// VerifC05StripCaseScopes is query.stripCaseScopes.
func VerifC05StripCaseScopes(q Q) Q { return stripCaseScopes(q) }

// VerifC05ParseScoped is Parse up to (not including) stripCaseScopes and Simplify.
func VerifC05ParseScoped(s string) (Q, error) {
	b := []byte(s)
	qs, n, err := parseExprList(b)
	if err != nil {
		return nil, err
	}
	if n != len(b) {
		return nil, fmt.Errorf("query: extra tokens found at end input: %q", b[n:])
	}
	return parseOperators(qs)
}
