//go:build verif

package query_test

// C05: the query-level rewrites on TLC-enumerated trees, seeded random deeper trees and query
// strings with case scopes.  For every rewrite one event {kind, before, after, atoms}; the
// driver decides nothing, Trace_Rewrite.tla evaluates before and after under every valuation
// of the atoms.
//
//   evalconst  query.evalConstants            flatten  one pass of query.flatten
//   simplify   query.Simplify                 expand   query.Map(q, query.ExpandFileContent)
//   casescope  query.stripCaseScopes on the tree Parse builds (wrappers = "scope" nodes)
//   parse      the tree Parse builds before stripping  ->  what query.Parse returns

import (
	"encoding/json"
	"fmt"
	"math/rand"
	"strings"
	"testing"

	"github.com/sourcegraph/zoekt/internal/verifkit"
	"github.com/sourcegraph/zoekt/internal/verifkit/corpus"
	"github.com/sourcegraph/zoekt/internal/verifkit/rewrite"
	"github.com/sourcegraph/zoekt/query"
)

// atoms for the leaf classes a / b of a script, by palette
var c05Palettes = [][2]*corpus.Q{
	{{T: "substr", Pat: "abc"}, {T: "substr", Pat: "abc", FN: true}},
	{{T: "regex", Pat: "a.c", CT: true}, {T: "regex", Pat: "a.c", FN: true, CT: true}},
	{{T: "substr", Pat: "Foo", CS: true, CT: true}, {T: "lang", S: "Go"}},
	{{T: "symbol", Sub: []*corpus.Q{{T: "substr", Pat: "x", CT: true}}}, {T: "branch", Pat: "main"}},
	{{T: "repo", Pat: "alpha"}, {T: "reposet", Names: []string{"org/alpha", "org/beta"}}},
	{{T: "repoids", IDs: []uint32{1, 3}}, {T: "branchesrepos", BR: []corpus.BranchIDs{{Branch: "HEAD", IDs: []uint32{1}}, {Branch: "dev"}}}},
	{{T: "meta", S: "license", Pat: "MIT"}, {T: "filenameset", Names: []string{"a.go"}}},
	{{T: "rawconfig", Flags: 1 | 8}, {T: "reporegexp", Pat: "^org/"}},
	{{T: "regex", Pat: "a.c"}, {T: "substr", Pat: "a.c", CT: true}},
	{{T: "substr", Pat: "ab", FN: true, CT: true}, {T: "substr", Pat: "ab", CT: true}},
	// pairs of different atoms that PRINT the same (String() abbreviates sets to their size and
	// leaves out some flags): a rewrite must not identify operands by their printout
	{{T: "repoids", IDs: []uint32{1, 3}}, {T: "repoids", IDs: []uint32{2, 3}}},
	{{T: "reposet", Names: []string{"a/1", "a/2", "a/3", "a/4", "a/5", "a/6"}}, {T: "reposet", Names: []string{"b/1", "b/2", "b/3", "b/4", "b/5", "b/6"}}},
	{{T: "filenameset", Names: []string{"1.go", "2.go", "3.go", "4.go", "5.go", "6.go"}}, {T: "filenameset", Names: []string{"a.go", "b.go", "c.go", "d.go", "e.go", "f.go"}}},
	{{T: "regex", Pat: "a.c", CT: true}, {T: "regex", Pat: "a.c"}},
	{{T: "substr", Pat: "ab", FN: true, CT: true}, {T: "substr", Pat: "ab", FN: true}},
	{{T: "branchesrepos", BR: []corpus.BranchIDs{{Branch: "HEAD", IDs: []uint32{1, 2}}}}, {T: "branchesrepos", BR: []corpus.BranchIDs{{Branch: "HEAD", IDs: []uint32{3, 4}}}}},
}

func c05Leaf(palette, salt int) func(string, int) *corpus.Q {
	return func(class string, occ int) *corpus.Q {
		var q *corpus.Q
		switch class {
		case "a":
			q = c05Palettes[palette%len(c05Palettes)][0]
		case "b":
			q = c05Palettes[palette%len(c05Palettes)][1]
		case "dT":
			q = rewrite.DegenerateTrue(salt + occ)
		default:
			q = rewrite.DegenerateFalse(salt + occ)
		}
		c := *q
		return &c
	}
}

type c05Run struct {
	tr     *verifkit.Trace
	counts map[string]int
}

func (r *c05Run) one(kind string, in query.Q, src string, f func(query.Q) query.Q) query.Q {
	s := rewrite.NewSer(query.VerifC05ScopeChild)
	before := s.Tree(in) // projected before the call: a rewrite that edits its input in place is seen
	var out query.Q
	p := verifkit.Catch(func() { out = f(in) })
	r.counts[kind]++
	if p != nil {
		r.tr.Emit(rewrite.Event(kind, s, before, nil, "panic", fmt.Sprint(p), 0, src))
		return nil
	}
	after := s.Tree(out)
	if s.Bits(before, after) > rewrite.MaxBits {
		r.counts[kind]--
		r.counts["skipped-too-many-atoms"]++
		return out
	}
	r.tr.Emit(rewrite.Event(kind, s, before, after, "ok", "", 0, src))
	return out
}

// all runs the four query-level rewrites; with thin (thorough tier, where the exhaustive family is
// 14 times larger) the two steps Simplify is composed of are recorded on every third tree only.
func (r *c05Run) all(q *corpus.Q, thin bool) {
	src := ""
	verifkit.Catch(func() { src = q.Zoekt().String() })
	if !thin {
		r.one("evalconst", q.Zoekt(), src, query.VerifC05EvalConstants)
		r.one("flatten", q.Zoekt(), src, query.VerifC05Flatten)
	}
	r.one("simplify", q.Zoekt(), src, query.Simplify)
	r.one("expand", q.Zoekt(), src, func(x query.Q) query.Q { return query.Map(x, query.ExpandFileContent) })
}

func TestVerif_C05_Scripts(t *testing.T) {
	scripts := verifkit.ReadScripts(t)
	tr := verifkit.Open(t)
	defer tr.Close()
	tr.Emit(corpus.FoldEvent())
	r := &c05Run{tr: tr, counts: map[string]int{}}
	rounds := verifkit.EnvInt("C05_ROUNDS", 1)
	seed := int(verifkit.Seed())
	for i, raw := range scripts {
		var toks []rewrite.Tok
		if err := json.Unmarshal(raw, &toks); err != nil {
			t.Fatal(err)
		}
		for k := 0; k < rounds; k++ {
			q, err := rewrite.Build(toks, c05Leaf(i+seed+k*3, i+seed+k))
			if err != nil {
				t.Fatal(err)
			}
			r.all(q, verifkit.Thorough() && i%3 != 0)
		}
	}
	t.Logf("c05 scripts: %v", r.counts)
}

// ---------------------------------------------------------------- random deeper trees

// variables the specification will quantify over: two per substring/regexp pattern, one per
// other atom
func c05Vars(q *corpus.Q, bases, others map[string]bool, hasRepo *bool) {
	switch q.T {
	case "and", "or", "not", "boost":
	case "type":
		if q.S == "repo" {
			*hasRepo = true
		}
	case "const":
	case "substr", "regex":
		if q.Pat != "" {
			bases[fmt.Sprintf("%s|%s|%v", q.T, q.Pat, q.CS)] = true
		}
	default:
		others[q.Zoekt().String()] = true
	}
	for _, s := range q.Sub {
		if q.T != "symbol" {
			c05Vars(s, bases, others, hasRepo)
		}
	}
}

func c05Budget(q *corpus.Q) bool {
	bases, others := map[string]bool{}, map[string]bool{}
	hasRepo := false
	c05Vars(q, bases, others, &hasRepo)
	n := 2*len(bases) + len(others)
	if hasRepo {
		return n <= 5
	}
	return n <= 9
}

func c05RandomTree(rng *rand.Rand, pool []*corpus.Q, depth int) *corpus.Q {
	leaf := func() *corpus.Q {
		switch x := rng.Intn(16); {
		case x < 8:
			c := *pool[rng.Intn(len(pool))]
			return &c
		case x < 10:
			return &corpus.Q{T: "const", B: rng.Intn(2) == 0}
		case x < 12:
			return rewrite.DegenerateTrue(rng.Intn(6))
		case x < 14:
			return rewrite.DegenerateFalse(rng.Intn(6))
		case x < 15:
			return &corpus.Q{T: "and"}
		default:
			return &corpus.Q{T: "or"}
		}
	}
	if depth <= 0 || rng.Intn(5) == 0 {
		return leaf()
	}
	switch x := rng.Intn(20); {
	case x < 12:
		q := &corpus.Q{T: []string{"and", "or"}[rng.Intn(2)]}
		for k, n := 0, rng.Intn(5); k < n; k++ {
			q.Sub = append(q.Sub, c05RandomTree(rng, pool, depth-1))
		}
		return q
	case x < 15:
		return &corpus.Q{T: "not", Sub: []*corpus.Q{c05RandomTree(rng, pool, depth-1)}}
	case x < 16:
		return &corpus.Q{T: "boost", Sub: []*corpus.Q{c05RandomTree(rng, pool, depth-1)}}
	case x < 19:
		return &corpus.Q{T: "type", S: []string{"filename", "filematch", "repo"}[rng.Intn(3)], Sub: []*corpus.Q{c05RandomTree(rng, pool, depth-1)}}
	default:
		return leaf()
	}
}

func TestVerif_C05_Random(t *testing.T) {
	tr := verifkit.Open(t)
	defer tr.Close()
	tr.Emit(corpus.FoldEvent())
	r := &c05Run{tr: tr, counts: map[string]int{}}
	n := verifkit.EnvInt("C05_RANDOM", verifkit.Pick(600, 8000))
	var all []*corpus.Q
	for _, p := range c05Palettes {
		all = append(all, p[0], p[1])
	}
	for i, made := 0, 0; made < n && i < 20*n; i++ {
		rng := verifkit.Rng(int64(i))
		var pool []*corpus.Q
		for k, m := 0, 1+rng.Intn(4); k < m; k++ {
			pool = append(pool, all[rng.Intn(len(all))])
		}
		q := c05RandomTree(rng, pool, 2+rng.Intn(4))
		if !c05Budget(q) {
			continue
		}
		made++
		r.all(q, false)
	}
	t.Logf("c05 random: %v", r.counts)
}

// ---------------------------------------------------------------- case scopes in Parse

var c05Words = []string{"foo", "Bar", "f:x", "c:Y", "case:yes", "case:no", "case:auto", "or", "-", "type:file", "type:repo",
	"lang:go", "r:repo", "b:main", "sym:Zed", "content:abc", "file:Abc", "a.c", "A.c", "\"q r\"", "archived:no", "meta.k:v", "-foo",
	"case:yes", "case:no"}

func c05String(rng *rand.Rand, depth int) string {
	var parts []string
	for k, n := 0, 1+rng.Intn(4); k < n; k++ {
		if depth > 0 && rng.Intn(3) == 0 {
			g := "(" + c05String(rng, depth-1) + ")"
			if rng.Intn(4) == 0 {
				g = "-" + g
			}
			parts = append(parts, g)
			continue
		}
		w := c05Words[rng.Intn(len(c05Words))]
		if w == "-" {
			w = "-" + c05Words[rng.Intn(4)]
		}
		parts = append(parts, w)
	}
	return strings.Join(parts, " ")
}

var c05Fixed = []string{
	"case:yes Foo", "case:no Foo", "(case:yes Foo) bar", "case:no (case:yes Foo) Bar", "case:yes (Foo or case:no Bar)",
	"-(case:yes Foo)", "case:no -(case:yes Foo bar)", "type:file (case:yes Foo)", "(case:yes a) or (case:no B)",
	"case:yes ((case:no A) b)", "case:yes (a (case:auto B))", "(case:yes) foo", "case:yes", "(case:yes foo) or bar or (case:no Baz)",
	"type:repo (case:yes Foo) or bar", "-(-(case:yes Foo))", "case:no sym:Foo (case:yes sym:Bar)",
}

func TestVerif_C05_CaseScope(t *testing.T) {
	tr := verifkit.Open(t)
	defer tr.Close()
	tr.Emit(corpus.FoldEvent())
	r := &c05Run{tr: tr, counts: map[string]int{}}
	n := verifkit.EnvInt("C05_STRINGS", verifkit.Pick(1200, 12000))
	strs := append([]string(nil), c05Fixed...)
	for i := 0; len(strs) < n+len(c05Fixed) && i < 10*n; i++ {
		rng := verifkit.Rng(int64(1_000_000 + i))
		strs = append(strs, c05String(rng, 3))
	}
	seen := map[string]bool{}
	errs := 0
	for _, s := range strs {
		if seen[s] {
			continue
		}
		seen[s] = true
		scoped, err := query.VerifC05ParseScoped(s)
		if err != nil {
			errs++
			continue
		}
		stripped := r.one("casescope", scoped, s, query.VerifC05StripCaseScopes)
		if stripped != nil {
			r.one("simplify", stripped, s, query.Simplify)
		}
		// end to end: a second, independent parse of the same string
		scoped2, err := query.VerifC05ParseScoped(s)
		if err != nil {
			t.Fatalf("second parse of %q failed: %v", s, err)
		}
		r.one("parse", scoped2, s, func(query.Q) query.Q {
			q, err := query.Parse(s)
			if err != nil {
				panic("Parse fails where its first half succeeded: " + err.Error())
			}
			return q
		})
	}
	t.Logf("c05 casescope: %v, %d strings, %d rejected by the parser", r.counts, len(seen), errs)
}
