//go:build verif

package server

// C24: wire conversion is lossless, the gRPC service is total.
//
//   TestVerif_C24_RoundTrip  seeded values of Q (every node kind), SearchOptions, SearchResult (unary and
//                            stream form), RepoList, ListOptions -> ToProto -> [proto.Marshal/Unmarshal] ->
//                            FromProto; before/after rendered with reflection as trees for Wire.tla
//   TestVerif_C24_Calls      request shapes enumerated by TLC (WireGen.tla) built as protobuf messages and
//                            given to the real Server.Search / StreamSearch / List in-process (fake stream,
//                            a small real directory searcher behind it); outcome response | error | panic

import (
	"context"
	"encoding/hex"
	"encoding/json"
	"fmt"
	"math"
	"math/rand"
	"os"
	"path/filepath"
	"reflect"
	"regexp/syntax"
	"runtime/debug"
	"sort"
	"strconv"
	"strings"
	"testing"
	"time"
	"unsafe"

	"github.com/RoaringBitmap/roaring/v2"
	"github.com/grafana/regexp"
	"google.golang.org/grpc"
	"google.golang.org/grpc/status"
	"google.golang.org/protobuf/proto"
	"google.golang.org/protobuf/types/known/durationpb"

	"github.com/sourcegraph/zoekt"
	webserverv1 "github.com/sourcegraph/zoekt/grpc/protos/zoekt/webserver/v1"
	"github.com/sourcegraph/zoekt/index"
	"github.com/sourcegraph/zoekt/internal/verifkit"
	"github.com/sourcegraph/zoekt/query"
	"github.com/sourcegraph/zoekt/search"
)

// ---------------------------------------------------------------- rendering

// c24Node is the tree Wire.tla works on: t = o(bject) | a(rray) | n(ull); scalar members in sk/sv,
// composite members in ck/cv.
type c24Node struct {
	T  string     `json:"t"`
	SK []string   `json:"sk"`
	SV []string   `json:"sv"`
	CK []string   `json:"ck"`
	CV []*c24Node `json:"cv"`
}

func c24New(t string) *c24Node {
	return &c24Node{T: t, SK: []string{}, SV: []string{}, CK: []string{}, CV: []*c24Node{}}
}

var (
	c24TimeT     = reflect.TypeOf(time.Time{})
	c24DurT      = reflect.TypeOf(time.Duration(0))
	c24SyntaxT   = reflect.TypeOf((*syntax.Regexp)(nil))
	c24RegexpT   = reflect.TypeOf((*regexp.Regexp)(nil))
	c24BitmapT   = reflect.TypeOf((*roaring.Bitmap)(nil))
	c24QT        = reflect.TypeOf((*query.Q)(nil)).Elem()
	c24EmptyT    = reflect.TypeOf(struct{}{})
	c24BytesT    = reflect.TypeOf([]byte(nil))
	c24RawConfT  = reflect.TypeOf(query.RawConfig(0))
	c24FlushT    = reflect.TypeOf(zoekt.FlushReason(0))
	c24ListFldT  = reflect.TypeOf(zoekt.RepoListField(0))
	c24SymbolPT  = reflect.TypeOf((*zoekt.Symbol)(nil))
	c24RepoPT    = reflect.TypeOf((*zoekt.Repository)(nil))
	c24BranchesT = reflect.TypeOf([]query.BranchRepos(nil))
)

// access to unexported fields
func c24Open(v reflect.Value) reflect.Value {
	if v.CanInterface() || !v.CanAddr() {
		return v
	}
	return reflect.NewAt(v.Type(), unsafe.Pointer(v.UnsafeAddr())).Elem()
}

func c24Addressable(v reflect.Value) reflect.Value {
	if v.CanAddr() {
		return v
	}
	c := reflect.New(v.Type()).Elem()
	c.Set(v)
	return c
}

// c24Render returns (scalar rendering, nil) or ("", composite node).
func c24Render(v reflect.Value) (string, *c24Node) {
	t := v.Type()
	switch t {
	case c24TimeT:
		tm := v.Interface().(time.Time)
		return fmt.Sprintf("t:%d.%09d", tm.Unix(), tm.Nanosecond()), nil
	case c24DurT:
		return "d:" + strconv.FormatInt(v.Int(), 10), nil
	case c24SyntaxT:
		if v.IsNil() {
			return "", c24New("n")
		}
		return "re:" + strconv.QuoteToASCII((&query.Regexp{Regexp: v.Interface().(*syntax.Regexp)}).RegexpString()), nil
	case c24RegexpT:
		if v.IsNil() {
			return "", c24New("n")
		}
		return "re:" + strconv.QuoteToASCII(v.Interface().(*regexp.Regexp).String()), nil
	case c24BitmapT:
		if v.IsNil() {
			return "", c24New("n")
		}
		n := c24New("a")
		for _, id := range v.Interface().(*roaring.Bitmap).ToArray() {
			n.SV = append(n.SV, "i:"+strconv.FormatUint(uint64(id), 10))
		}
		return "", n
	case c24BytesT:
		return "x:" + hex.EncodeToString(v.Bytes()), nil
	}
	switch v.Kind() {
	case reflect.Bool:
		return "b:" + strconv.FormatBool(v.Bool()), nil
	case reflect.Int, reflect.Int8, reflect.Int16, reflect.Int32, reflect.Int64:
		return "i:" + strconv.FormatInt(v.Int(), 10), nil
	case reflect.Uint, reflect.Uint8, reflect.Uint16, reflect.Uint32, reflect.Uint64:
		return "i:" + strconv.FormatUint(v.Uint(), 10), nil
	case reflect.Float32, reflect.Float64:
		return fmt.Sprintf("f:%016x", math.Float64bits(v.Float())), nil
	case reflect.String:
		return "s:" + strconv.QuoteToASCII(v.String()), nil
	case reflect.Ptr:
		if v.IsNil() {
			return "", c24New("n")
		}
		return c24Render(v.Elem())
	case reflect.Interface:
		if v.IsNil() {
			return "", c24New("n")
		}
		n := c24New("o")
		e := v.Elem()
		name := e.Type().String()
		n.SK, n.SV = append(n.SK, "kind"), append(n.SV, "s:"+strings.TrimPrefix(strings.TrimPrefix(name, "*"), "query."))
		c24Member(n, "v", e)
		return "", n
	case reflect.Struct:
		v = c24Addressable(v)
		n := c24New("o")
		names := []string{}
		for i := 0; i < t.NumField(); i++ {
			names = append(names, t.Field(i).Name)
		}
		sort.Strings(names)
		for _, name := range names {
			c24Member(n, name, c24Open(v.FieldByName(name)))
		}
		return "", n
	case reflect.Slice, reflect.Array:
		n := c24New("a")
		for i := 0; i < v.Len(); i++ {
			s, c := c24Render(v.Index(i))
			if c == nil {
				n.SV = append(n.SV, s)
			} else {
				n.CV = append(n.CV, c)
			}
		}
		return "", n
	case reflect.Map:
		keys := []string{}
		byKey := map[string]reflect.Value{}
		for _, k := range v.MapKeys() {
			ks, _ := c24Render(k)
			keys = append(keys, ks)
			byKey[ks] = v.MapIndex(k)
		}
		sort.Strings(keys)
		if t.Elem() == c24EmptyT { // a set
			n := c24New("a")
			n.SV = append(n.SV, keys...)
			return "", n
		}
		n := c24New("o")
		for _, k := range keys {
			c24Member(n, k, byKey[k])
		}
		return "", n
	}
	panic("c24: cannot render " + t.String())
}

func c24Member(n *c24Node, key string, v reflect.Value) {
	s, c := c24Render(v)
	if c == nil {
		n.SK, n.SV = append(n.SK, key), append(n.SV, s)
	} else {
		n.CK, n.CV = append(n.CK, key), append(n.CV, c)
	}
}

func c24Tree(x any) *c24Node {
	v := reflect.ValueOf(x)
	if !v.IsValid() {
		return c24New("n")
	}
	_, c := c24Render(v)
	if c == nil {
		panic("c24: top level scalar")
	}
	return c
}

// ---------------------------------------------------------------- generation

type c24Gen struct {
	rng      *rand.Rand
	kinds    map[string]int // query node kinds generated
	repoNest int            // nesting of zoekt.Repository values (SubRepoMap)
}

var c24RepoT = reflect.TypeOf(zoekt.Repository{})

var c24Words = []string{"", "a", "foo", "bar/baz.go", "héllo", "日本", "x y", "HEAD", "main", "\t", "a\"b", "z\u0000z"}

func (g *c24Gen) str() string { return c24Words[g.rng.Intn(len(c24Words))] }

func (g *c24Gen) int64() int64 {
	switch g.rng.Intn(8) {
	case 0:
		return 0
	case 1:
		return -1 - int64(g.rng.Intn(1000))
	case 2:
		return int64(g.rng.Uint64())
	case 3:
		return []int64{math.MaxInt64, math.MinInt64, 1 << 31, 1<<32 + 1, 1 << 53}[g.rng.Intn(5)]
	default:
		return int64(g.rng.Intn(100000))
	}
}

func (g *c24Gen) float() float64 {
	switch g.rng.Intn(8) {
	case 0:
		return 0
	case 1:
		return math.Copysign(0, -1)
	case 2:
		return []float64{math.Inf(1), math.Inf(-1), math.NaN(), math.MaxFloat64, math.SmallestNonzeroFloat64}[g.rng.Intn(5)]
	case 3:
		return math.Float64frombits(g.rng.Uint64())
	default:
		return float64(g.rng.Intn(2000)-1000) / 8
	}
}

func (g *c24Gen) length() int {
	switch x := g.rng.Intn(8); {
	case x < 2:
		return -1 // nil
	case x == 2:
		return 0
	case x < 6:
		return 1
	default:
		return 2
	}
}

// fill sets v (settable) to a random value of its type.
func (g *c24Gen) fill(v reflect.Value, depth int) {
	t := v.Type()
	switch t {
	case c24TimeT:
		switch g.rng.Intn(4) {
		case 0:
			v.Set(reflect.ValueOf(time.Time{}))
		case 1:
			v.Set(reflect.ValueOf(time.Unix(int64(g.rng.Intn(1<<31)), int64(g.rng.Intn(1e9))).In(time.FixedZone("x", 3600))))
		default:
			v.Set(reflect.ValueOf(time.Unix(g.rng.Int63n(1<<34)-1<<31, int64(g.rng.Intn(1e9))).UTC()))
		}
		return
	case c24DurT:
		v.SetInt(g.int64())
		return
	case c24FlushT:
		v.SetUint([]uint64{0, 1, 2, 4}[g.rng.Intn(4)])
		return
	case c24ListFldT:
		v.SetInt([]int64{0, 2}[g.rng.Intn(2)])
		return
	case c24BytesT:
		if n := g.length(); n >= 0 {
			b := make([]byte, n*3)
			g.rng.Read(b)
			v.SetBytes(b)
		}
		return
	case c24SymbolPT: // nil is meaningful: "not a symbol"
		if g.rng.Intn(3) == 0 {
			return
		}
	}
	switch v.Kind() {
	case reflect.Bool:
		v.SetBool(g.rng.Intn(2) == 0)
	case reflect.Int, reflect.Int64:
		v.SetInt(g.int64())
	case reflect.Int32:
		v.SetInt(int64(int32(g.int64())))
	case reflect.Uint8:
		v.SetUint(uint64(g.rng.Intn(256)))
	case reflect.Uint16:
		v.SetUint(uint64(g.rng.Intn(65536)))
	case reflect.Uint32:
		v.SetUint(uint64(uint32(g.int64())))
	case reflect.Uint, reflect.Uint64:
		v.SetUint(uint64(g.int64()))
	case reflect.Float64, reflect.Float32:
		v.SetFloat(g.float())
	case reflect.String:
		v.SetString(g.str())
	case reflect.Ptr:
		p := reflect.New(t.Elem())
		g.fill(p.Elem(), depth+1)
		v.Set(p)
	case reflect.Struct:
		if t == c24RepoT {
			g.repoNest++
			defer func() { g.repoNest-- }()
		}
		for i := 0; i < t.NumField(); i++ {
			f := c24Open(v.Field(i))
			if f.Type().Kind() == reflect.Map && f.Type().Elem() == c24RepoPT && g.repoNest >= 2 {
				continue // SubRepoMap: one level of nesting
			}
			g.fill(f, depth+1)
		}
	case reflect.Slice:
		n := g.length()
		if n < 0 {
			return
		}
		s := reflect.MakeSlice(t, n, n)
		for i := 0; i < n; i++ {
			g.fill(s.Index(i), depth+1)
		}
		v.Set(s)
	case reflect.Map:
		n := g.length()
		if n < 0 {
			return
		}
		m := reflect.MakeMap(t)
		for i := 0; i < n; i++ {
			k := reflect.New(t.Key()).Elem()
			g.fill(k, depth+1)
			e := reflect.New(t.Elem()).Elem()
			g.fill(e, depth+1)
			m.SetMapIndex(k, e)
		}
		v.Set(m)
	default:
		panic("c24: cannot generate " + t.String())
	}
}

var c24Patterns = []string{"a", "foo.*bar", "a+b", "[a-z]+\\d", "foo|bar", "^x$", "\\bfoo\\b", "(?i)abc", "(?s).*", "\\pL+",
	"a{2,3}", "(a|b)*c", "\\.go$", "héllo", "[^\\n]x", "(?m)^a$"}

func (g *c24Gen) bitmap() *roaring.Bitmap {
	bm := roaring.New()
	for i, n := 0, g.rng.Intn(4); i < n; i++ {
		bm.Add([]uint32{0, 1, 65536, math.MaxUint32, uint32(g.rng.Intn(1000))}[g.rng.Intn(5)])
	}
	return bm
}

// c24Kinds is the driver's registry of query node kinds (Wire.tla: QKinds); node fields are filled by type.
var c24Kinds = []string{"RawConfig", "Regexp", "Symbol", "Language", "Const", "Repo", "RepoRegexp", "BranchesRepos",
	"RepoIDs", "RepoSet", "FileNameSet", "Type", "Substring", "And", "Or", "Not", "Branch", "Boost", "Meta"}

func c24Proto(kind string) query.Q {
	switch kind {
	case "RawConfig":
		return query.RawConfig(0)
	case "Regexp":
		return &query.Regexp{}
	case "Symbol":
		return &query.Symbol{}
	case "Language":
		return &query.Language{}
	case "Const":
		return &query.Const{}
	case "Repo":
		return &query.Repo{}
	case "RepoRegexp":
		return &query.RepoRegexp{}
	case "BranchesRepos":
		return &query.BranchesRepos{}
	case "RepoIDs":
		return &query.RepoIDs{}
	case "RepoSet":
		return &query.RepoSet{}
	case "FileNameSet":
		return &query.FileNameSet{}
	case "Type":
		return &query.Type{}
	case "Substring":
		return &query.Substring{}
	case "And":
		return &query.And{}
	case "Or":
		return &query.Or{}
	case "Not":
		return &query.Not{}
	case "Branch":
		return &query.Branch{}
	case "Boost":
		return &query.Boost{}
	case "Meta":
		return &query.Meta{}
	}
	panic("c24: kind " + kind)
}

func (g *c24Gen) q(kind string, depth int) query.Q {
	if kind == "" {
		for {
			kind = c24Kinds[g.rng.Intn(len(c24Kinds))]
			if depth >= 3 && (kind == "And" || kind == "Or" || kind == "Not" || kind == "Type" || kind == "Boost" || kind == "Symbol") {
				continue
			}
			if kind == "Meta" && g.rng.Intn(8) != 0 { // QToProto panics on Meta: keep it from drowning the rest
				continue
			}
			break
		}
	}
	g.kinds[kind]++
	if kind == "RawConfig" {
		return query.RawConfig(g.rng.Intn(64))
	}
	p := reflect.ValueOf(c24Proto(kind))
	s := p.Elem()
	for i := 0; i < s.NumField(); i++ {
		f := s.Field(i)
		switch {
		case f.Type() == c24QT:
			f.Set(reflect.ValueOf(g.q("", depth+1)))
		case f.Type() == reflect.SliceOf(c24QT):
			n := g.length()
			if n >= 0 {
				qs := make([]query.Q, n+g.rng.Intn(2))
				for k := range qs {
					qs[k] = g.q("", depth+1)
				}
				f.Set(reflect.ValueOf(qs))
			}
		case f.Type() == c24SyntaxT:
			re, err := syntax.Parse(c24Patterns[g.rng.Intn(len(c24Patterns))], syntax.ClassNL|syntax.PerlX|syntax.UnicodeGroups)
			if err != nil {
				panic(err)
			}
			f.Set(reflect.ValueOf(re))
		case f.Type() == c24RegexpT:
			f.Set(reflect.ValueOf(regexp.MustCompile(c24Patterns[g.rng.Intn(len(c24Patterns))])))
		case f.Type() == c24BitmapT:
			f.Set(reflect.ValueOf(g.bitmap()))
		case f.Type() == c24BranchesT:
			if n := g.length(); n >= 0 {
				l := make([]query.BranchRepos, n)
				for k := range l {
					l[k] = query.BranchRepos{Branch: g.str(), Repos: g.bitmap()}
				}
				f.Set(reflect.ValueOf(l))
			}
		case kind == "Type" && f.Kind() == reflect.Uint8:
			f.SetUint(uint64(g.rng.Intn(3)))
		default:
			g.fill(f, 1)
		}
	}
	return p.Interface().(query.Q)
}

func c24KindsOf(q query.Q, into map[string]int) {
	if q == nil {
		return
	}
	into[strings.TrimPrefix(strings.TrimPrefix(reflect.TypeOf(q).String(), "*"), "query.")]++
	switch s := q.(type) {
	case *query.And:
		for _, c := range s.Children {
			c24KindsOf(c, into)
		}
	case *query.Or:
		for _, c := range s.Children {
			c24KindsOf(c, into)
		}
	case *query.Not:
		c24KindsOf(s.Child, into)
	case *query.Type:
		c24KindsOf(s.Child, into)
	case *query.Boost:
		c24KindsOf(s.Child, into)
	case *query.Symbol:
		c24KindsOf(s.Expr, into)
	}
}

// c24Catch runs f; for a panic it returns the value, the innermost function inside zoekt and the innermost
// frames (function@file:line).
func c24Catch(f func()) (p any, fn string, where string) {
	defer func() {
		if r := recover(); r != nil {
			p = r
			var fr []string
			lines := strings.Split(string(debug.Stack()), "\n")
			for i := 0; i+1 < len(lines); i++ {
				const mod = "github.com/sourcegraph/zoekt/"
				l := strings.TrimSpace(lines[i+1])
				if !strings.HasPrefix(lines[i], mod) || strings.Contains(l, "zz_verif_") || strings.Contains(l, "/internal/verifkit/") {
					continue
				}
				name := strings.TrimPrefix(lines[i], mod)
				if j := strings.LastIndex(name, "("); j > 0 {
					name = name[:j]
				}
				if j := strings.LastIndex(name, "/"); j >= 0 {
					name = name[j+1:]
				}
				if j := strings.Index(l, " +0x"); j > 0 {
					l = l[:j]
				}
				if j := strings.LastIndex(l, "/"); j >= 0 {
					l = l[j+1:]
				}
				if fn == "" {
					fn = name
				}
				fr = append(fr, name+"@"+l)
			}
			if len(fr) > 3 {
				fr = fr[:3]
			}
			where = strings.Join(fr, " <- ")
		}
	}()
	f()
	return nil, "", ""
}

// ---------------------------------------------------------------- round trips

type c24Conv struct {
	typ    string
	before any
	kinds  []string
	// to converts to the protobuf message; from converts a message (the same one, or a copy that went through
	// proto.Marshal / proto.Unmarshal) back
	to   func() proto.Message
	from func(proto.Message) (any, error)
}

func c24IsNilMsg(m proto.Message) bool {
	return m == nil || reflect.ValueOf(m).IsNil()
}

func c24RoundTrip(tr *verifkit.Trace, c c24Conv) {
	before := c24Tree(c.before)
	for _, mode := range []string{"direct", "wire"} {
		out, msg := "ok", ""
		var after any
		var m proto.Message
		if p, _, where := c24Catch(func() { m = c.to() }); p != nil {
			if mode == "wire" {
				continue // already reported for the direct conversion
			}
			out, msg = "panic-to", fmt.Sprint(p)+" @ "+where
		}
		if out == "ok" && mode == "wire" {
			if c24IsNilMsg(m) {
				continue // an absent message has no bytes of its own
			}
			b, err := proto.Marshal(m)
			if err != nil {
				out, msg = "error-marshal", err.Error()
			} else {
				m2 := m.ProtoReflect().New().Interface()
				if err := proto.Unmarshal(b, m2); err != nil {
					out, msg = "error-unmarshal", err.Error()
				}
				m = m2
			}
		}
		if out == "ok" {
			var err error
			if p, _, where := c24Catch(func() { after, err = c.from(m) }); p != nil {
				out, msg = "panic-from", fmt.Sprint(p)+" @ "+where
			} else if err != nil {
				out, msg = "error-from", err.Error()
			}
		}
		an := c24New("n")
		if out == "ok" {
			an = c24Tree(after)
		}
		kinds := c.kinds
		if kinds == nil {
			kinds = []string{}
		}
		tr.Emit(verifkit.M{"ev": "rt", "typ": c.typ, "mode": mode, "kinds": kinds, "out": out, "msg": msg,
			"before": before, "after": an})
	}
}

func TestVerif_C24_RoundTrip(t *testing.T) {
	tr := verifkit.Open(t)
	defer tr.Close()
	n := verifkit.EnvInt("C24_VALUES", verifkit.Pick(80, 3000))
	total := map[string]int{}
	for i := 0; i < n; i++ {
		g := &c24Gen{rng: verifkit.Rng(int64(i)), kinds: map[string]int{}}

		// Q: every kind in turn as the root
		for r := 0; r < 3; r++ {
			kind := c24Kinds[(3*i+r)%len(c24Kinds)]
			q := g.q(kind, 0)
			ks := map[string]int{}
			c24KindsOf(q, ks)
			var names []string
			for k, c := range ks {
				names = append(names, k)
				total[k] += c
			}
			sort.Strings(names)
			c24RoundTrip(tr, c24Conv{typ: "Q", before: &q, kinds: names,
				to: func() proto.Message { return query.QToProto(q) },
				from: func(m proto.Message) (any, error) {
					q2, err := query.QFromProto(m.(*webserverv1.Q))
					return &q2, err
				}})
		}

		var so *zoekt.SearchOptions
		if i%10 != 0 {
			so = &zoekt.SearchOptions{}
			g.fill(reflect.ValueOf(so).Elem(), 0)
		}
		c24RoundTrip(tr, c24Conv{typ: "SearchOptions", before: so,
			to:   func() proto.Message { return so.ToProto() },
			from: func(m proto.Message) (any, error) { return zoekt.SearchOptionsFromProto(m.(*webserverv1.SearchOptions)), nil }})

		var lo *zoekt.ListOptions
		if i%5 != 0 {
			lo = &zoekt.ListOptions{}
			g.fill(reflect.ValueOf(lo).Elem(), 0)
		}
		c24RoundTrip(tr, c24Conv{typ: "ListOptions", before: lo,
			to:   func() proto.Message { return lo.ToProto() },
			from: func(m proto.Message) (any, error) { return zoekt.ListOptionsFromProto(m.(*webserverv1.ListOptions)), nil }})

		if i%2 == 0 {
			var sr *zoekt.SearchResult
			if i%20 != 0 {
				sr = &zoekt.SearchResult{}
				g.fill(reflect.ValueOf(sr).Elem(), 0)
			}
			urls := func() (map[string]string, map[string]string) {
				if sr == nil {
					return nil, nil
				}
				return sr.RepoURLs, sr.LineFragments // not part of the message: handed to FromProto by its caller
			}
			c24RoundTrip(tr, c24Conv{typ: "SearchResult", before: sr,
				to: func() proto.Message { return sr.ToProto() },
				from: func(m proto.Message) (any, error) {
					a, b := urls()
					return zoekt.SearchResultFromProto(m.(*webserverv1.SearchResponse), a, b), nil
				}})
			c24RoundTrip(tr, c24Conv{typ: "SearchResultStream", before: sr,
				to: func() proto.Message { return sr.ToStreamProto() },
				from: func(m proto.Message) (any, error) {
					a, b := urls()
					return zoekt.SearchResultFromStreamProto(m.(*webserverv1.StreamSearchResponse), a, b), nil
				}})
		} else {
			rl := &zoekt.RepoList{}
			g.fill(reflect.ValueOf(rl).Elem(), 0)
			c24RoundTrip(tr, c24Conv{typ: "RepoList", before: rl,
				to:   func() proto.Message { return rl.ToProto() },
				from: func(m proto.Message) (any, error) { return zoekt.RepoListFromProto(m.(*webserverv1.ListResponse)), nil }})
		}
	}
	tr.Emit(verifkit.M{"ev": "kinds", "registry": c24Kinds, "counts": total})
}

// ---------------------------------------------------------------- totality

type c24Script struct {
	Method string   `json:"method"`
	Req    string   `json:"req"`
	Shape  []string `json:"shape"`
	Opts   string   `json:"opts"`
}

var c24CorruptBitmap = []byte{0xff, 0xff, 0xff, 0xff, 0xff}

func c24GoodBitmap() []byte {
	b, err := roaring.BitmapOf(1, 2).ToBytes()
	if err != nil {
		panic(err)
	}
	return b
}

// c24Build consumes one shape from the token list.
func c24Build(toks *[]string) *webserverv1.Q {
	tok := (*toks)[0]
	*toks = (*toks)[1:]
	q := func(x any) *webserverv1.Q {
		res := &webserverv1.Q{}
		reflect.ValueOf(res).Elem().FieldByName("Query").Set(reflect.ValueOf(x))
		return res
	}
	switch tok {
	case "nil":
		return nil
	case "unset":
		return &webserverv1.Q{}
	case "const":
		return q(&webserverv1.Q_Const{Const: true})
	case "substr":
		return q(&webserverv1.Q_Substring{Substring: &webserverv1.Substring{Pattern: "hello", Content: true}})
	case "regexp":
		return q(&webserverv1.Q_Regexp{Regexp: &webserverv1.Regexp{Regexp: "hel+o", Content: true}})
	case "regexp-bad":
		return q(&webserverv1.Q_Regexp{Regexp: &webserverv1.Regexp{Regexp: "a(b", Content: true}})
	case "repo":
		return q(&webserverv1.Q_Repo{Repo: &webserverv1.Repo{Regexp: "rep.*"}})
	case "repo-bad":
		return q(&webserverv1.Q_Repo{Repo: &webserverv1.Repo{Regexp: "rep(*"}})
	case "reporegexp":
		return q(&webserverv1.Q_RepoRegexp{RepoRegexp: &webserverv1.RepoRegexp{Regexp: "rep.*"}})
	case "reporegexp-bad":
		return q(&webserverv1.Q_RepoRegexp{RepoRegexp: &webserverv1.RepoRegexp{Regexp: "[a"}})
	case "repoids":
		return q(&webserverv1.Q_RepoIds{RepoIds: &webserverv1.RepoIds{Repos: c24GoodBitmap()}})
	case "repoids-corrupt":
		return q(&webserverv1.Q_RepoIds{RepoIds: &webserverv1.RepoIds{Repos: c24CorruptBitmap}})
	case "br":
		return q(&webserverv1.Q_BranchesRepos{BranchesRepos: &webserverv1.BranchesRepos{List: []*webserverv1.BranchRepos{
			{Branch: "HEAD", Repos: c24GoodBitmap()}}}})
	case "br-corrupt":
		return q(&webserverv1.Q_BranchesRepos{BranchesRepos: &webserverv1.BranchesRepos{List: []*webserverv1.BranchRepos{
			{Branch: "HEAD", Repos: c24CorruptBitmap}}}})
	case "br-nil-elem":
		return q(&webserverv1.Q_BranchesRepos{BranchesRepos: &webserverv1.BranchesRepos{List: []*webserverv1.BranchRepos{nil}}})
	case "reposet":
		return q(&webserverv1.Q_RepoSet{RepoSet: &webserverv1.RepoSet{Set: map[string]bool{"repo": true}}})
	case "filenameset":
		return q(&webserverv1.Q_FileNameSet{FileNameSet: &webserverv1.FileNameSet{Set: []string{"f.txt"}}})
	case "language":
		return q(&webserverv1.Q_Language{Language: &webserverv1.Language{Language: "Go"}})
	case "branch":
		return q(&webserverv1.Q_Branch{Branch: &webserverv1.Branch{Pattern: "HEAD"}})
	case "rawconfig":
		return q(&webserverv1.Q_RawConfig{RawConfig: &webserverv1.RawConfig{Flags: []webserverv1.RawConfig_Flag{webserverv1.RawConfig_FLAG_ONLY_PUBLIC}}})
	case "meta":
		return q(&webserverv1.Q_Meta{Meta: &webserverv1.Meta{Key: "license", Value: "MIT"}})
	case "meta-bad":
		return q(&webserverv1.Q_Meta{Meta: &webserverv1.Meta{Key: "license", Value: "(("}})
	case "in-rawconfig":
		return q(&webserverv1.Q_RawConfig{})
	case "in-regexp":
		return q(&webserverv1.Q_Regexp{})
	case "in-symbol":
		return q(&webserverv1.Q_Symbol{})
	case "in-language":
		return q(&webserverv1.Q_Language{})
	case "in-repo":
		return q(&webserverv1.Q_Repo{})
	case "in-reporegexp":
		return q(&webserverv1.Q_RepoRegexp{})
	case "in-branchesrepos":
		return q(&webserverv1.Q_BranchesRepos{})
	case "in-repoids":
		return q(&webserverv1.Q_RepoIds{})
	case "in-reposet":
		return q(&webserverv1.Q_RepoSet{})
	case "in-filenameset":
		return q(&webserverv1.Q_FileNameSet{})
	case "in-type":
		return q(&webserverv1.Q_Type{})
	case "in-substring":
		return q(&webserverv1.Q_Substring{})
	case "in-and":
		return q(&webserverv1.Q_And{})
	case "in-or":
		return q(&webserverv1.Q_Or{})
	case "in-not":
		return q(&webserverv1.Q_Not{})
	case "in-branch":
		return q(&webserverv1.Q_Branch{})
	case "in-boost":
		return q(&webserverv1.Q_Boost{})
	case "in-meta":
		return q(&webserverv1.Q_Meta{})
	case "not":
		return q(&webserverv1.Q_Not{Not: &webserverv1.Not{Child: c24Build(toks)}})
	case "type":
		return q(&webserverv1.Q_Type{Type: &webserverv1.Type{Type: webserverv1.Type_KIND_FILE_NAME, Child: c24Build(toks)}})
	case "boost":
		return q(&webserverv1.Q_Boost{Boost: &webserverv1.Boost{Boost: 2, Child: c24Build(toks)}})
	case "symbol":
		return q(&webserverv1.Q_Symbol{Symbol: &webserverv1.Symbol{Expr: c24Build(toks)}})
	case "and0", "and1", "and2", "or1", "or2":
		n := int(tok[len(tok)-1] - '0')
		cs := []*webserverv1.Q{}
		for i := 0; i < n; i++ {
			cs = append(cs, c24Build(toks))
		}
		if tok[0] == 'a' {
			return q(&webserverv1.Q_And{And: &webserverv1.And{Children: cs}})
		}
		return q(&webserverv1.Q_Or{Or: &webserverv1.Or{Children: cs}})
	}
	panic("c24: unknown shape token " + tok)
}

type c24Stream struct {
	grpc.ServerStream
	ctx  context.Context
	sent int
}

func (s *c24Stream) Context() context.Context { return s.ctx }
func (s *c24Stream) Send(*webserverv1.StreamSearchResponse) error {
	s.sent++
	return nil
}

func c24Searcher(t *testing.T) zoekt.Streamer {
	dir := t.TempDir()
	b, err := index.NewShardBuilder(&zoekt.Repository{Name: "repo", ID: 1,
		Branches: []zoekt.RepositoryBranch{{Name: "HEAD", Version: "v1"}}, RawConfig: map[string]string{"public": "1"}})
	if err != nil {
		t.Fatal(err)
	}
	for name, data := range map[string]string{"f.txt": "hello world\nsecond line\n", "main.go": "package main\nfunc hello() {}\n"} {
		if err := b.AddFile(name, []byte(data)); err != nil {
			t.Fatal(err)
		}
	}
	f, err := os.Create(filepath.Join(dir, "repo_v16.00000.zoekt"))
	if err != nil {
		t.Fatal(err)
	}
	if err := b.Write(f); err != nil {
		t.Fatal(err)
	}
	f.Close()
	ss, err := search.NewDirectorySearcher(dir)
	if err != nil {
		t.Fatal(err)
	}
	t.Cleanup(ss.Close)
	return ss
}

func TestVerif_C24_Calls(t *testing.T) {
	scripts := verifkit.ReadScripts(t)
	tr := verifkit.Open(t)
	defer tr.Close()
	srv := NewServer(c24Searcher(t))

	// the searcher really searches: a sanity probe, not a verdict
	probe, err := srv.Search(context.Background(), &webserverv1.SearchRequest{Query: c24Build(&[]string{"substr"}),
		Opts: &webserverv1.SearchOptions{}})
	if err != nil || len(probe.GetFiles()) == 0 {
		t.Fatalf("probe search found nothing: %v %v", probe, err)
	}

	for _, raw := range scripts {
		var sc c24Script
		if err := json.Unmarshal(raw, &sc); err != nil {
			t.Fatal(err)
		}
		toks := append([]string(nil), sc.Shape...)
		q := c24Build(&toks)
		if len(toks) != 0 {
			t.Fatalf("shape %v not consumed", sc.Shape)
		}
		var sopts *webserverv1.SearchOptions
		var lopts *webserverv1.ListOptions
		switch sc.Opts {
		case "zero":
			sopts, lopts = &webserverv1.SearchOptions{}, &webserverv1.ListOptions{}
		case "set":
			sopts = &webserverv1.SearchOptions{ChunkMatches: true, TotalMaxMatchCount: 10, MaxWallTime: durationpb.New(5 * time.Second), NumContextLines: 1}
			lopts = &webserverv1.ListOptions{Field: webserverv1.ListOptions_REPO_LIST_FIELD_REPOS_MAP}
		}
		ctx, cancel := context.WithTimeout(context.Background(), 30*time.Second)
		out, code, msg, detail := "response", "OK", "", ""
		var err error
		p, fn, where := c24Catch(func() {
			switch sc.Method {
			case "Search":
				var req *webserverv1.SearchRequest
				if sc.Req == "ok" {
					req = &webserverv1.SearchRequest{Query: q, Opts: sopts}
				}
				var res *webserverv1.SearchResponse
				res, err = srv.Search(ctx, req)
				if err == nil && res == nil {
					detail = "nil response"
				} else if err == nil {
					detail = fmt.Sprintf("files=%d", len(res.GetFiles()))
				}
			case "StreamSearch":
				var req *webserverv1.StreamSearchRequest
				switch sc.Req {
				case "ok":
					req = &webserverv1.StreamSearchRequest{Request: &webserverv1.SearchRequest{Query: q, Opts: sopts}}
				case "inner-nil":
					req = &webserverv1.StreamSearchRequest{}
				}
				st := &c24Stream{ctx: ctx}
				err = srv.StreamSearch(req, st)
				detail = fmt.Sprintf("sent=%d", st.sent)
			case "List":
				var req *webserverv1.ListRequest
				if sc.Req == "ok" {
					req = &webserverv1.ListRequest{Query: q, Opts: lopts}
				}
				var res *webserverv1.ListResponse
				res, err = srv.List(ctx, req)
				if err == nil && res == nil {
					detail = "nil response"
				} else if err == nil {
					detail = fmt.Sprintf("repos=%d map=%d", len(res.GetRepos()), len(res.GetReposMap()))
				}
			default:
				panic("c24: method " + sc.Method)
			}
		})
		cancel()
		switch {
		case p != nil:
			out, code, msg = "panic", "", fmt.Sprint(p)+" @ "+where
		case err != nil:
			out, code, msg = "error", status.Code(err).String(), err.Error()
		case detail == "nil response":
			out = "nothing"
		}
		if len(msg) > 300 {
			msg = msg[:300]
		}
		tr.Emit(verifkit.M{"ev": "call", "method": sc.Method, "req": sc.Req, "shape": sc.Shape, "opts": sc.Opts,
			"out": out, "code": code, "msg": msg, "detail": detail, "fn": fn})
	}
}
