//go:build verif

package main

import (
	"context"
	"encoding/hex"
	"encoding/json"
	"errors"
	"fmt"
	"io"
	"log"
	"math/rand"
	"os"
	"path/filepath"
	"regexp/syntax"
	"runtime"
	"sort"
	"strconv"
	"strings"
	"sync"
	"sync/atomic"
	"testing"
	"time"

	"github.com/grafana/regexp"

	"github.com/sourcegraph/zoekt"
	"github.com/sourcegraph/zoekt/index"
	"github.com/sourcegraph/zoekt/internal/verifkit"
	"github.com/sourcegraph/zoekt/query"
	"github.com/sourcegraph/zoekt/search"
)

// C16: merging and exploding shards preserves searchable content.
//
// Simple shards are built with the real builder (seeded random repositories: priorities,
// branches, symbols, sub-repositories, file tombstones, binary and empty documents), then a
// sequence of merge / explode / tombstone operations (scripted by MergeContent.tla or seeded
// random) is run through index.Merge / index.Explode and the zoekt-merge-index entry points.
// After every step the directory is projected: shard structure (metadata of every shard
// file), per repository the bag of documents (whole-content constant-true search), the
// answers of a fixed query set, and the List metadata.  Trace_MergeContent.tla judges.

type c16Sym struct {
	Start, End int
	Sym        zoekt.Symbol
}

type c16Doc struct {
	Name     string
	Content  []byte
	Branches []string
	Lang     string
	Sub      string
	Syms     []c16Sym
}

type c16Repo struct {
	ID       uint32
	Prio     int
	Branches []string
	Sub      bool
	Docs     []c16Doc
	FT       []string
	Flags    map[string]string
}

func c16Name(id uint32) string { return "c16/r" + strconv.Itoa(int(id)) }

func c16ID(name string) uint32 {
	if strings.HasPrefix(name, "c16/r") {
		if n, err := strconv.Atoi(name[5:]); err == nil {
			return uint32(n)
		}
	}
	return 0
}

var c16Vocab = []string{"alpha", "Alpha", "bravo", "Bravo", "delta", "gamma", "kilo", "lima", "ünïcode", "func", "DELTA"}
var c16FileNames = []string{"main.go", "lib/util.go", "README.md", "sub/x.py", "sub/deep/y.go", "data.bin", "noext", "a b.txt", "ünï.txt", "lib/empty.txt", "Makefile"}

func c16Desc(r c16Repo) (zoekt.Repository, map[string]*zoekt.Repository) {
	n := c16Name(r.ID)
	raw := map[string]string{"priority": strconv.Itoa(r.Prio)}
	for k, v := range r.Flags {
		raw[k] = v
	}
	d := zoekt.Repository{
		ID: r.ID, Name: n, URL: "http://c16.example/" + n, Source: "/src/" + n,
		FileURLTemplate:      "http://c16.example/" + n + "/blob/{{.Version}}/{{.Path}}",
		LineFragmentTemplate: "#L{{.LineNumber}}",
		CommitURLTemplate:    "http://c16.example/" + n + "/commit/{{.Version}}",
		RawConfig:            raw,
		Metadata:             map[string]string{"lic": []string{"mit", "apache"}[r.ID%2]},
	}
	for _, b := range r.Branches {
		d.Branches = append(d.Branches, zoekt.RepositoryBranch{Name: b, Version: fmt.Sprintf("v%d-%s", r.ID, b)})
	}
	var subs map[string]*zoekt.Repository
	if r.Sub {
		s := &zoekt.Repository{Name: n + "-sub", URL: "http://c16.example/" + n + "-sub",
			FileURLTemplate: "http://c16.example/" + n + "-sub/{{.Path}}", LineFragmentTemplate: "#l{{.LineNumber}}"}
		for _, b := range r.Branches {
			s.Branches = append(s.Branches, zoekt.RepositoryBranch{Name: b, Version: fmt.Sprintf("s%d-%s", r.ID, b)})
		}
		subs = map[string]*zoekt.Repository{"sub": s}
	}
	return d, subs
}

func c16GenRepo(rng *rand.Rand, id uint32, prio int, ndocs int) c16Repo {
	r := c16Repo{ID: id, Prio: prio, Flags: map[string]string{}}
	// shared names at the same and at different positions of the lists (a document's branch mask is positional)
	r.Branches = [][]string{{"main"}, {"main", "dev"}, {"main", "dev", "rel"}, {"HEAD"}, {"dev", "main"}, {"rel", "main", "dev"}, {"HEAD", "main"}, {"dev", "rel"}}[rng.Intn(8)]
	r.Sub = rng.Intn(3) == 0
	for _, f := range []string{"public", "fork", "archived"} {
		if rng.Intn(3) == 0 {
			r.Flags[f] = "1"
		}
	}
	perm := rng.Perm(len(c16FileNames))
	for i := 0; i < ndocs; i++ {
		name := c16FileNames[perm[i%len(perm)]]
		if !r.Sub && strings.HasPrefix(name, "sub/") && rng.Intn(2) == 0 {
			name = "top/" + name[4:]
		}
		d := c16Doc{Name: name}
		if r.Sub && strings.HasPrefix(name, "sub/") {
			d.Sub = "sub"
		}
		// branches: a non-empty subset; a name that comes round again (i >= len(perm)) gets the
		// branches the first copy left over, else it is dropped
		for _, b := range r.Branches {
			if rng.Intn(2) == 0 {
				d.Branches = append(d.Branches, b)
			}
		}
		if len(d.Branches) == 0 {
			d.Branches = []string{r.Branches[rng.Intn(len(r.Branches))]}
		}
		switch {
		case name == "data.bin":
			d.Content = []byte("alpha\x00\x01\x02bravo\n")
		case name == "lib/empty.txt":
			d.Content = []byte{}
		default:
			var sb strings.Builder
			lines := 1 + rng.Intn(5)
			for l := 0; l < lines; l++ {
				words := 1 + rng.Intn(4)
				for w := 0; w < words; w++ {
					if w > 0 {
						sb.WriteByte(' ')
					}
					word := c16Vocab[rng.Intn(len(c16Vocab))]
					start := sb.Len()
					sb.WriteString(word)
					if (strings.HasSuffix(name, ".go") || strings.HasSuffix(name, ".py")) && rng.Intn(3) == 0 {
						d.Syms = append(d.Syms, c16Sym{Start: start, End: sb.Len(), Sym: zoekt.Symbol{
							Sym: word, Kind: []string{"func", "type", "var"}[rng.Intn(3)],
							Parent: []string{"", "Outer"}[rng.Intn(2)], ParentKind: []string{"", "class"}[rng.Intn(2)]}})
					}
				}
				if l < lines-1 || rng.Intn(4) != 0 {
					sb.WriteByte('\n')
				}
			}
			d.Content = []byte(sb.String())
		}
		// an explicit language, also one that detection from name and content would not give
		switch rng.Intn(4) {
		case 0:
			if strings.HasSuffix(name, ".go") {
				d.Lang = "Go"
			}
		case 1:
			d.Lang = []string{"Go", "Ruby", "Python", "C"}[rng.Intn(4)]
		}
		r.Docs = append(r.Docs, d)
	}
	// the same path twice is only meaningful on disjoint branches
	seen := map[string]map[string]bool{}
	docs := r.Docs[:0]
	for _, d := range r.Docs {
		if seen[d.Name] == nil {
			seen[d.Name] = map[string]bool{}
		}
		var bs []string
		for _, b := range d.Branches {
			if !seen[d.Name][b] {
				seen[d.Name][b] = true
				bs = append(bs, b)
			}
		}
		if len(bs) > 0 {
			d.Branches = bs
			docs = append(docs, d)
		}
	}
	r.Docs = docs
	if len(r.Docs) > 1 && rng.Intn(4) == 0 {
		r.FT = []string{r.Docs[rng.Intn(len(r.Docs))].Name}
	}
	return r
}

// c16Build writes the simple shard of r into dir with the real builder.  Every builder
// allocates ~35 MB of posting tables; collecting right away lets the next one reuse the pages.
func c16Build(dir string, r c16Repo) error {
	defer runtime.GC()
	desc, subs := c16Desc(r)
	b, err := index.NewBuilder(index.Options{IndexDir: dir, RepositoryDescription: desc, SubRepositories: subs,
		DisableCTags: true, Parallelism: 1, ShardMax: 1 << 20})
	if err != nil {
		return err
	}
	for _, d := range r.Docs {
		doc := index.Document{Name: d.Name, Content: d.Content, Branches: d.Branches, Language: d.Lang, SubRepositoryPath: d.Sub}
		for _, s := range d.Syms {
			sym := s.Sym
			doc.Symbols = append(doc.Symbols, index.DocumentSection{Start: uint32(s.Start), End: uint32(s.End)})
			doc.SymbolsMetaData = append(doc.SymbolsMetaData, &sym)
		}
		if err := b.Add(doc); err != nil {
			return err
		}
	}
	if err := b.Finish(); err != nil {
		return err
	}
	if len(r.FT) > 0 {
		opts := index.Options{IndexDir: dir, RepositoryDescription: desc}
		fs := opts.FindAllShards()
		if len(fs) != 1 {
			return fmt.Errorf("repo %d: %d shards", r.ID, len(fs))
		}
		repos, _, err := index.ReadMetadataPath(fs[0])
		if err != nil {
			return err
		}
		repos[0].FileTombstones = map[string]struct{}{}
		for _, f := range r.FT {
			repos[0].FileTombstones[f] = struct{}{}
		}
		tmp, final, err := index.JsonMarshalRepoMetaTemp(fs[0], repos[0])
		if err != nil {
			return err
		}
		return os.Rename(tmp, final)
	}
	return nil
}

// ------------------------------------------------------------------ observation

type c16RepoRef struct {
	ID   uint32 `json:"id"`
	Tomb bool   `json:"tomb"`
}

type c16ShardObs struct {
	File     string       `json:"file"`
	Compound bool         `json:"compound"`
	Err      string       `json:"err"`
	Repos    []c16RepoRef `json:"repos"`
}

type c16DocObs struct {
	Name     string   `json:"name"`
	Content  string   `json:"content"`
	Branches []string `json:"branches"`
	Lang     string   `json:"lang"`
	Sub      string   `json:"sub"`
	Version  string   `json:"version"`
	Sum      string   `json:"sum"`
	Syms     []string `json:"syms"`
}

type c16Content struct {
	ID      uint32      `json:"id"`
	Docs    []c16DocObs `json:"docs"`
	Answers [][]string  `json:"answers"`
}

type c16ListObs struct {
	ID uint32 `json:"id"`
	// compared
	Repo      string `json:"repo"`
	Docs      int    `json:"docs"`
	CBytes    int    `json:"cbytes"`
	Shards    int    `json:"shards"`
	NL        int    `json:"nl"`
	DNL       int    `json:"dnl"`
	ONL       int    `json:"onl"`
	IFeature  int    `json:"ifeature"`
	IMinRead  int    `json:"iminreader"`
	ZVersion  string `json:"zversion"`
	MapSyms   bool   `json:"mapsyms"`
	MapBranch string `json:"mapbranches"`
	// recomputed by the builder when a shard is rewritten (not compared)
	IFormat    int    `json:"iformat"`
	ITime      int    `json:"itime"`
	IID        string `json:"iid"`
	LangMap    string `json:"langmap"`
	PlainASCII bool   `json:"plainascii"`
	IBytes     int    `json:"ibytes"`
}

type c16State struct {
	Shards  []c16ShardObs `json:"shards"`
	Content []c16Content  `json:"content"`
	List    []c16ListObs  `json:"list"`
	Err     string        `json:"err"`
}

func c16Structure(dir string) []c16ShardObs {
	fs, _ := filepath.Glob(filepath.Join(dir, "*.zoekt"))
	sort.Strings(fs)
	res := []c16ShardObs{}
	for _, f := range fs {
		o := c16ShardObs{File: filepath.Base(f), Compound: strings.HasPrefix(filepath.Base(f), "compound-"), Repos: []c16RepoRef{}}
		repos, _, err := index.ReadMetadataPath(f)
		if err != nil {
			o.Err = "unreadable"
			if errors.Is(err, index.ErrEmptyShard) {
				o.Err = "empty"
			}
		}
		for _, r := range repos {
			o.Repos = append(o.Repos, c16RepoRef{ID: r.ID, Tomb: r.Tombstone})
		}
		res = append(res, o)
	}
	return res
}

func c16Regexp(s string) *syntax.Regexp {
	re, err := syntax.Parse(s, syntax.Perl)
	if err != nil {
		panic(err)
	}
	return re
}

type c16Q struct {
	q     query.Q
	chunk bool
}

func c16Queries() []c16Q {
	return []c16Q{
		{q: &query.Substring{Pattern: "alpha", Content: true}},
		{q: &query.Substring{Pattern: "Bravo", Content: true, CaseSensitive: true}},
		{q: &query.Substring{Pattern: ".go", FileName: true}},
		{q: &query.Regexp{Regexp: c16Regexp("gam+a|del.a"), Content: true, CaseSensitive: true}},
		{q: &query.Symbol{Expr: &query.Regexp{Regexp: c16Regexp("al.*|fu.c"), Content: true}}},
		{q: &query.Symbol{Expr: &query.Substring{Pattern: "delta", Content: true}}},
		{q: query.NewAnd(&query.Branch{Pattern: "dev"}, &query.Substring{Pattern: "alpha", Content: true})},
		{q: &query.Language{Language: "Go"}},
		{q: query.NewAnd(&query.Not{Child: &query.Substring{Pattern: "alpha", Content: true}}, &query.Substring{Pattern: ".md", FileName: true})},
		{q: query.NewOr(&query.Substring{Pattern: "kilo", Content: true}, &query.Substring{Pattern: "README", FileName: true})},
		{q: &query.Substring{Pattern: "ünï"}},
		{q: query.NewAnd(&query.Repo{Regexp: nil}, &query.Substring{Pattern: "lima", Content: true})}, // regexp filled below
		{q: &query.Substring{Pattern: "alpha", Content: true}, chunk: true},
		{q: query.NewAnd(&query.Branch{Pattern: "main", Exact: true}, &query.Regexp{Regexp: c16Regexp("x\\.py|y\\.go"), FileName: true})},
		{q: &query.Substring{Pattern: "NOT-INDEXED", Content: true, CaseSensitive: true}},
	}
}

func c16SymStr(s *zoekt.Symbol) string {
	if s == nil {
		return "-"
	}
	return fmt.Sprintf("%q/%q/%q/%q", s.Sym, s.Kind, s.Parent, s.ParentKind)
}

// c16Match renders everything of a FileMatch except scores (document order inside a shard is
// a tie-breaker for scores and legitimately changes) and debug strings.
func c16Match(f *zoekt.FileMatch) string {
	var sb strings.Builder
	fmt.Fprintf(&sb, "%q br=%q lang=%q ver=%q sub=%q/%q", f.FileName, f.Branches, f.Language, f.Version, f.SubRepositoryName, f.SubRepositoryPath)
	lms := append([]zoekt.LineMatch(nil), f.LineMatches...)
	sort.SliceStable(lms, func(i, j int) bool {
		if lms[i].FileName != lms[j].FileName {
			return lms[i].FileName
		}
		return lms[i].LineNumber < lms[j].LineNumber
	})
	for _, lm := range lms {
		fmt.Fprintf(&sb, " L%d[%d,%d]fn=%t %q", lm.LineNumber, lm.LineStart, lm.LineEnd, lm.FileName, lm.Line)
		for _, fr := range lm.LineFragments {
			fmt.Fprintf(&sb, "(%d,%d,%d,%s)", fr.LineOffset, fr.Offset, fr.MatchLength, c16SymStr(fr.SymbolInfo))
		}
	}
	cms := append([]zoekt.ChunkMatch(nil), f.ChunkMatches...)
	sort.SliceStable(cms, func(i, j int) bool {
		if cms[i].FileName != cms[j].FileName {
			return cms[i].FileName
		}
		return cms[i].ContentStart.ByteOffset < cms[j].ContentStart.ByteOffset
	})
	for _, cm := range cms {
		fmt.Fprintf(&sb, " C@%d:%d:%d fn=%t %q", cm.ContentStart.ByteOffset, cm.ContentStart.LineNumber, cm.ContentStart.Column, cm.FileName, cm.Content)
		for i, r := range cm.Ranges {
			fmt.Fprintf(&sb, "(%d-%d", r.Start.ByteOffset, r.End.ByteOffset)
			if i < len(cm.SymbolInfo) {
				sb.WriteString("," + c16SymStr(cm.SymbolInfo[i]))
			}
			sb.WriteString(")")
		}
	}
	return sb.String()
}

var c16ObsTime, c16OpTime atomic.Int64

func c16Observe(dir string) (st c16State) {
	defer func(t0 time.Time) { c16ObsTime.Add(int64(time.Since(t0))) }(time.Now())
	st = c16State{Shards: c16Structure(dir), Content: []c16Content{}, List: []c16ListObs{}}
	if p := verifkit.Catch(func() {
		ss, err := search.NewDirectorySearcher(dir)
		if err != nil {
			st.Err = "searcher: " + err.Error()
			return
		}
		defer ss.Close()
		ctx := context.Background()
		byID := map[uint32]*c16Content{}
		qs := c16Queries()
		get := func(id uint32) *c16Content {
			if byID[id] == nil {
				c := &c16Content{ID: id, Docs: []c16DocObs{}, Answers: make([][]string, len(qs))}
				for i := range c.Answers {
					c.Answers[i] = []string{}
				}
				byID[id] = c
			}
			return byID[id]
		}
		// documents: whole content, and per document all symbols (through a symbol query that
		// matches every symbol)
		syms := map[string][]string{}
		sr, err := ss.Search(ctx, &query.Symbol{Expr: &query.Regexp{Regexp: c16Regexp("."), Content: true}}, &zoekt.SearchOptions{})
		if err != nil {
			st.Err = "symbols: " + err.Error()
			return
		}
		for _, f := range sr.Files {
			key := fmt.Sprintf("%d\x00%s\x00%q", f.RepositoryID, f.FileName, f.Branches)
			for _, lm := range f.LineMatches {
				for _, fr := range lm.LineFragments {
					syms[key] = append(syms[key], fmt.Sprintf("%d:%d+%d:%s", lm.LineNumber, fr.LineOffset, fr.MatchLength, c16SymStr(fr.SymbolInfo)))
				}
			}
			sort.Strings(syms[key])
		}
		sr, err = ss.Search(ctx, &query.Const{Value: true}, &zoekt.SearchOptions{Whole: true})
		if err != nil {
			st.Err = "search: " + err.Error()
			return
		}
		for _, f := range sr.Files {
			if c16ID(f.Repository) != f.RepositoryID {
				st.Err = fmt.Sprintf("file %s: repository %q has id %d", f.FileName, f.Repository, f.RepositoryID)
			}
			key := fmt.Sprintf("%d\x00%s\x00%q", f.RepositoryID, f.FileName, f.Branches)
			d := c16DocObs{Name: f.FileName, Content: strconv.QuoteToASCII(string(f.Content)), Branches: f.Branches, Lang: f.Language,
				Sub: f.SubRepositoryName + "@" + f.SubRepositoryPath, Version: f.Version, Sum: hex.EncodeToString(f.Checksum), Syms: syms[key]}
			if d.Branches == nil {
				d.Branches = []string{}
			}
			if d.Syms == nil {
				d.Syms = []string{}
			}
			c := get(f.RepositoryID)
			c.Docs = append(c.Docs, d)
		}
		for qi, q := range qs {
			rq := q.q
			if qi == 11 {
				rq = query.NewAnd(&query.Repo{Regexp: c16RepoRe}, &query.Substring{Pattern: "lima", Content: true})
			}
			sr, err := ss.Search(ctx, rq, &zoekt.SearchOptions{ChunkMatches: q.chunk})
			if err != nil {
				st.Err = fmt.Sprintf("query %d: %v", qi, err)
				return
			}
			for i := range sr.Files {
				c := get(sr.Files[i].RepositoryID)
				c.Answers[qi] = append(c.Answers[qi], c16Match(&sr.Files[i]))
			}
		}
		for _, c := range byID {
			sort.Slice(c.Docs, func(i, j int) bool {
				a, b := c.Docs[i], c.Docs[j]
				if a.Name != b.Name {
					return a.Name < b.Name
				}
				return fmt.Sprint(a.Branches) < fmt.Sprint(b.Branches)
			})
			for i := range c.Answers {
				sort.Strings(c.Answers[i])
			}
			st.Content = append(st.Content, *c)
		}
		sort.Slice(st.Content, func(i, j int) bool { return st.Content[i].ID < st.Content[j].ID })
		rl, err := ss.List(ctx, &query.Const{Value: true}, &zoekt.ListOptions{Field: zoekt.RepoListFieldRepos})
		if err != nil {
			st.Err = "list: " + err.Error()
			return
		}
		rm, err := ss.List(ctx, &query.Const{Value: true}, &zoekt.ListOptions{Field: zoekt.RepoListFieldReposMap})
		if err != nil {
			st.Err = "listmap: " + err.Error()
			return
		}
		for _, e := range rl.Repos {
			rj, _ := json.Marshal(e.Repository)
			lm, _ := json.Marshal(e.IndexMetadata.LanguageMap)
			o := c16ListObs{ID: e.Repository.ID, Repo: string(rj) + fmt.Sprintf(" prio=%v", e.Repository.GetPriority()),
				Docs: e.Stats.Documents, CBytes: int(e.Stats.ContentBytes), Shards: e.Stats.Shards,
				NL: int(e.Stats.NewLinesCount), DNL: int(e.Stats.DefaultBranchNewLinesCount), ONL: int(e.Stats.OtherBranchesNewLinesCount),
				IFeature: e.IndexMetadata.IndexFeatureVersion, IMinRead: e.IndexMetadata.IndexMinReaderVersion, ZVersion: e.IndexMetadata.ZoektVersion,
				IFormat: e.IndexMetadata.IndexFormatVersion, ITime: int(e.IndexMetadata.IndexTime.Unix() % 1000000000), IID: e.IndexMetadata.ID,
				LangMap: string(lm), PlainASCII: e.IndexMetadata.PlainASCII, IBytes: int(e.Stats.IndexBytes)}
			if m, ok := rm.ReposMap[e.Repository.ID]; ok {
				o.MapSyms = m.HasSymbols
				o.MapBranch = fmt.Sprint(m.Branches)
			} else {
				o.MapBranch = "missing from ReposMap"
			}
			st.List = append(st.List, o)
		}
		sort.Slice(st.List, func(i, j int) bool { return st.List[i].ID < st.List[j].ID })
		if len(rm.ReposMap) != len(rl.Repos) {
			st.Err = fmt.Sprintf("List: %d repos but ReposMap has %d", len(rl.Repos), len(rm.ReposMap))
		}
	}); p != nil {
		st.Err = fmt.Sprintf("panic: %v", p)
	}
	return st
}

var c16RepoRe = regexp.MustCompile("r[12]$")

// ------------------------------------------------------------------ operations

type c16Op struct {
	Op     string         `json:"op"`     // merge | explode | tomb | untomb
	Via    string         `json:"via"`    // index | cmd
	Shards [][]c16RepoRef `json:"shards"` // merge: the input shards, each by its repository list
	Shard  []c16RepoRef   `json:"shard"`  // explode / tomb / untomb
	ID     uint32         `json:"id"`
}

func c16Same(a, b []c16RepoRef) bool {
	if len(a) != len(b) {
		return false
	}
	for i := range a {
		if a[i] != b[i] {
			return false
		}
	}
	return true
}

// c16Find: the shard file holding exactly these repositories (same order and flags); if the
// real order differs from the predicted one (reported where that merge is the observed
// operation) the shard with the same repositories in any order.
func c16Find(st []c16ShardObs, want []c16RepoRef) string {
	for _, s := range st {
		if c16Same(s.Repos, want) {
			return s.File
		}
	}
	key := func(rs []c16RepoRef) string {
		xs := []string{}
		for _, r := range rs {
			xs = append(xs, fmt.Sprintf("%d:%t", r.ID, r.Tomb))
		}
		sort.Strings(xs)
		return strings.Join(xs, ",")
	}
	for _, s := range st {
		if key(s.Repos) == key(want) {
			return s.File
		}
	}
	return ""
}

// c16MergeIndex is what a caller of index.Merge has to do (and what cmd/zoekt-merge-index
// does): open the inputs, merge, delete the inputs, rename the result.
func c16MergeIndex(dir string, names []string) error {
	var files []index.IndexFile
	for _, fn := range names {
		f, err := os.Open(fn)
		if err != nil {
			return err
		}
		defer f.Close()
		inf, err := index.NewIndexFile(f)
		if err != nil {
			return err
		}
		defer inf.Close()
		files = append(files, inf)
	}
	tmp, dst, err := index.Merge(dir, files...)
	if err != nil {
		return err
	}
	for _, fn := range names {
		ps, err := index.IndexFilePaths(fn)
		if err != nil {
			return err
		}
		for _, p := range ps {
			if err := os.Remove(p); err != nil {
				return err
			}
		}
	}
	return os.Rename(tmp, dst)
}

// c16Apply runs one operation on the real directory; files are given by base name.
func c16Apply(dir string, op string, via string, files []string, id uint32) (err error) {
	defer runtime.GC()
	defer func(t0 time.Time) { c16OpTime.Add(int64(time.Since(t0))) }(time.Now())
	var paths []string
	for _, f := range files {
		paths = append(paths, filepath.Join(dir, f))
	}
	if p := verifkit.Catch(func() {
		switch op {
		case "merge":
			if via == "cmd" {
				_, err = mergeCmd(paths)
			} else {
				err = c16MergeIndex(dir, paths)
			}
		case "explode":
			if via == "cmd" {
				err = explodeCmd(paths[0])
			} else {
				err = index.Explode(dir, paths[0])
			}
		case "tomb":
			err = index.SetTombstone(paths[0], id)
		case "untomb":
			err = index.UnsetTombstone(paths[0], id)
		}
	}); p != nil {
		err = fmt.Errorf("panic: %v", p)
	}
	return err
}

func c16Reported(err error) string {
	if err == nil {
		return "ok"
	}
	return "err: " + err.Error()
}

func c16Files(fs []string) []string {
	if fs == nil {
		return []string{}
	}
	return fs
}

type c16Corpus struct {
	ID uint32 `json:"id"`
	ND int    `json:"nd"`
	PR int    `json:"pr"`
}

func c16Setup(t testing.TB, repos []c16Repo) (string, []c16Corpus) {
	dir, err := os.MkdirTemp(os.Getenv("VERIF_WORK"), "c16d")
	if err != nil {
		t.Fatal(err)
	}
	corpus := []c16Corpus{}
	for _, r := range repos {
		if err := c16Build(dir, r); err != nil {
			t.Fatalf("build repo %d: %v", r.ID, err)
		}
		corpus = append(corpus, c16Corpus{ID: r.ID, ND: len(r.Docs), PR: r.Prio})
	}
	return dir, corpus
}

func c16CopyDir(t testing.TB, src string) string {
	dst, err := os.MkdirTemp(os.Getenv("VERIF_WORK"), "c16w")
	if err != nil {
		t.Fatal(err)
	}
	ents, _ := os.ReadDir(src)
	for _, e := range ents {
		b, err := os.ReadFile(filepath.Join(src, e.Name()))
		if err != nil {
			t.Fatal(err)
		}
		if err := os.WriteFile(filepath.Join(dst, e.Name()), b, 0o644); err != nil {
			t.Fatal(err)
		}
	}
	return dst
}

// c16Leftovers: files that are neither a shard nor the sidecar of an existing shard
// (temporary files, sidecars of deleted shards).
func c16Leftovers(dir string) []string {
	ents, _ := os.ReadDir(dir)
	res := []string{}
	for _, e := range ents {
		n := e.Name()
		if strings.HasSuffix(n, ".zoekt") {
			continue
		}
		if strings.HasSuffix(n, ".zoekt.meta") {
			if _, err := os.Stat(filepath.Join(dir, strings.TrimSuffix(n, ".meta"))); err == nil {
				continue
			}
		}
		res = append(res, n)
	}
	return res
}

// ------------------------------------------------------------------ tests

type c16Script struct {
	Empty []uint32 `json:"empty"` // repositories without documents
	Ops   []c16Op  `json:"ops"`
}

// TestVerif_C16_Replay: operation sequences enumerated by MergeContent.tla over three
// repositories (priorities 30, 20, 10).  Only the last operation of a script is observed in
// full (every prefix is the end of another script); before it only the structure is read.
// Scripts are independent (each starts from a copy of the freshly built directory), so they
// are spread over a few workers; events are written in script order.
func TestVerif_C16_Replay(t *testing.T) {
	raw := verifkit.ReadScripts(t)
	tr := verifkit.Open(t)
	defer tr.Close()
	log.SetOutput(io.Discard)
	defer func(t0 time.Time) {
		t.Logf("total %v, operations %v, observations %v", time.Since(t0), time.Duration(c16OpTime.Load()), time.Duration(c16ObsTime.Load()))
	}(time.Now())
	scripts := make([]c16Script, len(raw))
	keys := make([]string, len(raw))
	templates := map[string]string{}
	bases := map[string]verifkit.M{}
	defer func() {
		for _, d := range templates {
			os.RemoveAll(d)
		}
	}()
	for si, line := range raw {
		if err := json.Unmarshal(line, &scripts[si]); err != nil {
			t.Fatal(err)
		}
		key := fmt.Sprint(scripts[si].Empty)
		keys[si] = key
		if templates[key] == "" {
			var repos []c16Repo
			for id := uint32(1); id <= 3; id++ {
				nd := 2 + int(id)
				for _, e := range scripts[si].Empty {
					if e == id {
						nd = 0
					}
				}
				repos = append(repos, c16GenRepo(verifkit.Rng(int64(1000+id)), id, 40-10*int(id), nd))
			}
			dir, corpus := c16Setup(t, repos)
			templates[key] = dir
			bases[key] = verifkit.M{"ev": "base", "corpus": corpus, "state": c16Observe(dir), "leftovers": c16Leftovers(dir)}
		}
	}
	bufs := make([][]verifkit.M, len(scripts))
	workers := verifkit.EnvInt("C16_WORKERS", 4)
	var wg sync.WaitGroup
	for w := 0; w < workers; w++ {
		wg.Add(1)
		go func(w int) {
			defer wg.Done()
			for si := w; si < len(scripts); si += workers {
				bufs[si] = c16ReplayOne(t, si, scripts[si], templates[keys[si]])
			}
		}(w)
	}
	wg.Wait()
	based := ""
	for si := range scripts {
		if based != keys[si] {
			// (re)announce the reference content whenever the corpus changes
			tr.Emit(bases[keys[si]])
			based = keys[si]
		}
		for _, e := range bufs[si] {
			tr.Emit(e)
		}
	}
}

func c16ReplayOne(t testing.TB, si int, sc c16Script, template string) (evs []verifkit.M) {
	dir := c16CopyDir(t, template)
	defer os.RemoveAll(dir)
	for i, op := range sc.Ops {
		last := i == len(sc.Ops)-1
		st := c16Structure(dir)
		if last {
			evs = append(evs, verifkit.M{"ev": "reset", "state": c16Observe(dir), "leftovers": c16Leftovers(dir)})
		}
		files, via := c16Resolve(st, op, i)
		if files == nil {
			// the directory is not the predicted one: a divergence in the prefix, which is
			// judged by the script that ends with that operation
			t.Logf("script %d op %d %+v: no such shard in %+v", si, i, op, st)
			if last {
				evs = append(evs, verifkit.M{"ev": "op", "op": op.Op, "via": via, "shards": []string{}, "shard": "?", "id": op.ID,
					"reported": "not run", "state": c16Observe(dir), "leftovers": c16Leftovers(dir)})
			}
			break
		}
		err := c16Apply(dir, op.Op, via, files, op.ID)
		if last {
			mfiles, sfile := []string{}, ""
			if op.Op == "merge" {
				mfiles = files
			} else {
				sfile = files[0]
			}
			evs = append(evs, verifkit.M{"ev": "op", "op": op.Op, "via": via, "shards": mfiles, "shard": sfile, "id": op.ID,
				"reported": c16Reported(err), "state": c16Observe(dir), "leftovers": c16Leftovers(dir)})
		}
	}
	return evs
}

func c16Resolve(st []c16ShardObs, op c16Op, n int) ([]string, string) {
	via := []string{"index", "cmd"}[n%2]
	if op.Via != "" {
		via = op.Via
	}
	var files []string
	if op.Op == "merge" {
		for _, want := range op.Shards {
			f := c16Find(st, want)
			if f == "" {
				return nil, via
			}
			files = append(files, f)
		}
	} else {
		f := c16Find(st, op.Shard)
		if f == "" {
			return nil, via
		}
		files = []string{f}
	}
	return files, via
}

// TestVerif_C16_Random: seeded random repositories (2..5, equal priorities on purpose, empty
// repositories, sub-repositories, file tombstones) and random operation sequences.
func TestVerif_C16_Random(t *testing.T) {
	tr := verifkit.Open(t)
	defer tr.Close()
	log.SetOutput(io.Discard)
	defer func(t0 time.Time) {
		t.Logf("total %v, operations %v, observations %v", time.Since(t0), time.Duration(c16OpTime.Load()), time.Duration(c16ObsTime.Load()))
	}(time.Now())
	n := verifkit.EnvInt("C16_SCENARIOS", verifkit.Pick(16, 250))
	for i := 0; i < n; i++ {
		rng := verifkit.Rng(int64(i))
		var repos []c16Repo
		for id, k := uint32(1), 2+rng.Intn(4); int(id) <= k; id++ {
			nd := rng.Intn(7)
			if rng.Intn(3) > 0 && nd == 0 {
				nd = 1 + rng.Intn(4)
			}
			repos = append(repos, c16GenRepo(rng, id, []int{0, 5, 5, 10, 20}[rng.Intn(5)], nd))
		}
		dir, corpus := c16Setup(t, repos)
		tr.Emit(verifkit.M{"ev": "base", "corpus": corpus, "state": c16Observe(dir), "leftovers": c16Leftovers(dir)})
		for k, steps := 0, 3+rng.Intn(4); k < steps; k++ {
			st := c16Structure(dir)
			var compounds, all []c16ShardObs
			for _, s := range st {
				all = append(all, s)
				if s.Compound && s.Err == "" {
					compounds = append(compounds, s)
				}
			}
			if len(all) == 0 {
				break // everything was tombstoned or empty and has been merged / exploded away
			}
			op, via := "merge", []string{"index", "cmd"}[rng.Intn(2)]
			if len(compounds) > 0 {
				op = []string{"merge", "explode", "tomb", "tomb", "untomb"}[rng.Intn(5)]
			}
			var files []string
			var id uint32
			switch op {
			case "merge":
				for _, s := range all {
					if rng.Intn(3) > 0 {
						files = append(files, s.File)
					}
				}
				if len(files) == 0 {
					files = []string{all[rng.Intn(len(all))].File}
				}
				rng.Shuffle(len(files), func(a, b int) { files[a], files[b] = files[b], files[a] })
			default:
				c := compounds[rng.Intn(len(compounds))]
				files = []string{c.File}
				if op != "explode" && len(c.Repos) > 0 {
					id = c.Repos[rng.Intn(len(c.Repos))].ID
				}
			}
			err := c16Apply(dir, op, via, files, id)
			mfiles, sfile := []string{}, ""
			if op == "merge" {
				mfiles = files
			} else {
				sfile = files[0]
			}
			tr.Emit(verifkit.M{"ev": "op", "op": op, "via": via, "shards": mfiles, "shard": sfile, "id": id,
				"reported": c16Reported(err), "state": c16Observe(dir), "leftovers": c16Leftovers(dir)})
		}
		os.RemoveAll(dir)
	}
}
