//go:build verif

package main

// C35: zoekt-merge-index merge / explode under kills and failing file operations.
//
// Like the C12 driver this file acts only when the test binary is started as a child process
// with VERIF_C35_ROLE set; the work happens in init() on the main goroutine (wired to the main
// OS thread during package initialisation), so that strace's per-thread `when=` counters
// address the k-th syscall deterministically.  Roles:
//   prep  (not traced) build the input shards
//   run   (under strace) the real main() of zoekt-merge-index with os.Args = merge|explode ...;
//         exit status and stdout are the command's own (log.Fatal => 1)
//   load  (not traced, fresh process) load the directory with search.NewDirectorySearcher
//         and print its projection

import (
	"context"
	"encoding/json"
	"fmt"
	"os"
	"path/filepath"
	"runtime"
	"sort"

	"github.com/sourcegraph/zoekt"
	"github.com/sourcegraph/zoekt/index"
	"github.com/sourcegraph/zoekt/query"
	"github.com/sourcegraph/zoekt/search"
)

type c35Cfg struct {
	Op       string   `json:"op"`       // merge | vacuum | explode
	N        int      `json:"n"`        // repositories 0..n-1
	D        int      `json:"d"`        // documents per repository
	Sidecars []int    `json:"sidecars"` // merge: inputs that carry a .meta sidecar
	Tomb     []int    `json:"tomb"`     // vacuum/explode: repositories tombstoned in the compound shard
	Resimple bool     `json:"resimple"` // tombstoned repositories have been re-indexed as simple shards
	Dir      string   `json:"dir"`
	Dirs     []string `json:"dirs"` // load: several surviving directories, one view line each
	Args     []string `json:"args"` // run: arguments of the command
}

const c35DocLen = 48

func init() {
	role := os.Getenv("VERIF_C35_ROLE")
	if role == "" {
		return
	}
	runtime.LockOSThread()
	var cfg c35Cfg
	if err := json.Unmarshal([]byte(os.Getenv("VERIF_C35_CFG")), &cfg); err != nil {
		fmt.Fprintln(os.Stderr, "c35: bad VERIF_C35_CFG:", err)
		os.Exit(70)
	}
	switch role {
	case "prep":
		if err := c35Prep(cfg); err != nil {
			fmt.Fprintln(os.Stderr, "c35 prep:", err)
			os.Exit(70)
		}
		os.Exit(0)
	case "run":
		os.Args = append([]string{"zoekt-merge-index"}, cfg.Args...)
		main() // log.Fatal exits 1 on error
		os.Exit(0)
	case "load":
		dirs := cfg.Dirs
		if len(dirs) == 0 {
			dirs = []string{cfg.Dir}
		}
		for _, d := range dirs {
			cfg.Dir = d
			if err := c35Load(cfg); err != nil {
				fmt.Fprintln(os.Stderr, "c35 load:", err)
				os.Exit(70)
			}
		}
		os.Exit(0)
	}
	os.Exit(70)
}

func c35Content(r, ver, j int) []byte {
	s := fmt.Sprintf("R%d V%d J%d ", r, ver, j)
	for len(s) < c35DocLen-1 {
		s += "x"
	}
	return []byte(s + "\n")
}

func c35BuildSimple(dir string, r, ver, d int) error {
	b, err := index.NewBuilder(index.Options{
		IndexDir:     dir,
		Parallelism:  1,
		DisableCTags: true,
		RepositoryDescription: zoekt.Repository{
			ID:       uint32(r + 1),
			Name:     fmt.Sprintf("repo%d", r),
			Branches: []zoekt.RepositoryBranch{{Name: "main", Version: fmt.Sprintf("v%d", ver)}},
		},
	})
	if err != nil {
		return err
	}
	for j := 0; j < d; j++ {
		if err := b.Add(index.Document{Name: fmt.Sprintf("f%03d.txt", j), Content: c35Content(r, ver, j), Branches: []string{"main"}}); err != nil {
			return err
		}
	}
	return b.Finish()
}

func c35Has(xs []int, x int) bool {
	for _, y := range xs {
		if x == y {
			return true
		}
	}
	return false
}

func c35Prep(cfg c35Cfg) error {
	if err := os.MkdirAll(cfg.Dir, 0o755); err != nil {
		return err
	}
	for r := 0; r < cfg.N; r++ {
		if err := c35BuildSimple(cfg.Dir, r, 1, cfg.D); err != nil {
			return err
		}
	}
	names, _ := filepath.Glob(filepath.Join(cfg.Dir, "*.zoekt"))
	sort.Strings(names)
	if cfg.Op == "merge" {
		for _, i := range cfg.Sidecars {
			fn := names[i]
			repos, _, err := index.ReadMetadataPath(fn)
			if err != nil {
				return err
			}
			repos[0].URL = "http://example/sidecar"
			t, d, err := index.JsonMarshalRepoMetaTemp(fn, repos[0])
			if err != nil {
				return err
			}
			if err := os.Rename(t, d); err != nil {
				return err
			}
		}
		return nil
	}
	// vacuum / explode start from a compound shard
	comp, err := merge(cfg.Dir, names)
	if err != nil || comp == "" {
		return fmt.Errorf("prep merge: %q %v", comp, err)
	}
	for _, r := range cfg.Tomb {
		if err := index.SetTombstone(comp, uint32(r+1)); err != nil {
			return err
		}
		if cfg.Resimple {
			if err := c35BuildSimple(cfg.Dir, r, 2, cfg.D); err != nil {
				return err
			}
		}
	}
	return nil
}

type c35ViewEl struct {
	R   int `json:"r"`
	Cnt int `json:"cnt"`
}

func c35Load(cfg c35Cfg) error {
	ss, err := search.NewDirectorySearcher(cfg.Dir)
	if err != nil {
		return err
	}
	defer ss.Close()
	all, err := ss.Search(context.Background(), &query.Const{Value: true}, &zoekt.SearchOptions{Whole: true})
	if err != nil {
		return err
	}
	copies := map[int]map[int]int{} // repo -> doc -> copies
	bad := []string{}
	for _, fm := range all.Files {
		var r, v, j int
		if _, err := fmt.Sscanf(string(fm.Content), "R%d V%d J%d ", &r, &v, &j); err != nil || len(fm.Content) != c35DocLen ||
			fm.Repository != fmt.Sprintf("repo%d", r) {
			bad = append(bad, fm.Repository+"/"+fm.FileName)
			continue
		}
		if copies[r] == nil {
			copies[r] = map[int]int{}
		}
		copies[r][j]++
	}
	view := []c35ViewEl{}
	for r, docs := range copies {
		cnt := 0
		for _, c := range docs {
			if cnt == 0 {
				cnt = c
			}
			if c != cnt {
				bad = append(bad, fmt.Sprintf("repo%d: documents visible %d and %d times", r, cnt, c))
			}
		}
		if len(docs) != cfg.D {
			bad = append(bad, fmt.Sprintf("repo%d: %d of %d documents visible", r, len(docs), cfg.D))
		}
		view = append(view, c35ViewEl{r, cnt})
	}
	sort.Slice(view, func(a, b int) bool { return view[a].R < view[b].R })
	files, _ := filepath.Glob(filepath.Join(cfg.Dir, "*"))
	names := []string{}
	for _, f := range files {
		names = append(names, filepath.Base(f))
	}
	out, _ := json.Marshal(map[string]any{"dir": cfg.Dir, "view": view, "bad": bad, "crashes": all.Stats.Crashes, "files": names})
	fmt.Printf("C35VIEW %s\n", out)
	return nil
}
