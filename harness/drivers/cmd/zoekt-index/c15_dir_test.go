//go:build verif

package main

import (
	"encoding/json"
	"fmt"
	"math/rand"
	"os"
	"path/filepath"
	"sort"
	"strings"
	"testing"

	"github.com/sourcegraph/zoekt/ignore"
	"github.com/sourcegraph/zoekt/index"
	"github.com/sourcegraph/zoekt/internal/verifkit"
	"github.com/sourcegraph/zoekt/internal/verifkit/ingest"
)

// C15 (directory part): a scenario is an abstract tree (files with content descriptors,
// directories, symlinks with their link text).  It is materialised under a scratch root, the
// real indexArg indexes it, and the shards it wrote are projected to abstract documents.
// Trace_DirArchive.tla decides.

type c15Entry struct {
	Path []int     `json:"path"`
	Kind string    `json:"kind"` // file | dir | symlink
	CD   ingest.CD `json:"cd"`
}

type c15DirScenario struct {
	Mode    string     `json:"mode"`
	Entries []c15Entry `json:"entries"`
}

type c15Script struct {
	Sc      c15DirScenario `json:"sc"`
	SizeMax int            `json:"sizemax"`
}

var c15IgnoreDirs = []string{".git", ".hg", ".svn"}

func c15RunDir(t testing.TB, tr *verifkit.Trace, base string, n int, sizeMax int, entries []c15Entry) {
	ingest.Progress("c15_progress_dir.json", verifkit.M{"n": n, "entries": entries})
	scdir := filepath.Join(base, fmt.Sprintf("s%d", n))
	root := filepath.Join(scdir, "repo")
	idx := filepath.Join(scdir, "idx")
	for _, d := range []string{root, idx} {
		if err := os.MkdirAll(d, 0o755); err != nil {
			t.Fatal(err)
		}
	}
	table := ingest.Table{}
	for i := range entries {
		e := &entries[i]
		if e.CD.Text == nil {
			e.CD.Text = []int{}
		}
		p := filepath.Join(root, filepath.FromSlash(ingest.Str(e.Path)))
		var err error
		switch e.Kind {
		case "dir":
			err = os.Mkdir(p, 0o755)
		case "file":
			table.Add(e.CD)
			err = os.WriteFile(p, e.CD.Bytes(), 0o644)
		case "symlink":
			err = os.Symlink(ingest.Str(e.CD.Text), p)
		default:
			err = fmt.Errorf("unknown kind %q", e.Kind)
		}
		if err != nil {
			t.Fatalf("materialise scenario %d: %v", n, err)
		}
	}
	opts := index.Options{IndexDir: idx, SizeMax: sizeMax, DisableCTags: true, ShardMax: 1 << 20, Parallelism: 1}
	opts.SetDefaults()
	opts.RepositoryDescription.Name = "repo"
	ign := map[string]struct{}{}
	igl := [][]int{}
	for _, d := range c15IgnoreDirs {
		ign[d] = struct{}{}
		igl = append(igl, verifkit.Runes(d))
	}
	out := ingest.Run(idx, table, func() error { return indexArg(root, opts, ign) })
	tr.Emit(verifkit.M{"ev": "dir", "sizemax": sizeMax, "ignoredirs": igl, "entries": entries, "out": out})
	os.RemoveAll(scdir)
}

func TestVerif_C15_DirReplay(t *testing.T) {
	scripts := verifkit.ReadScripts(t)
	tr := verifkit.Open(t)
	defer tr.Close()
	base := t.TempDir()
	for n, raw := range scripts {
		var sc c15Script
		if err := json.Unmarshal(raw, &sc); err != nil {
			t.Fatal(err)
		}
		c15RunDir(t, tr, base, n, sc.SizeMax, sc.Sc.Entries)
	}
}

// ---------------------------------------------------------------- ignore dialect conformance

// every (pattern line, path) pair is put to the real ignore.ParseIgnoreFile + Match
func TestVerif_C15_Glob(t *testing.T) {
	tr := verifkit.Open(t)
	defer tr.Close()
	rng := verifkit.Rng(77)
	n := verifkit.Pick(400, 4000)
	for i := 0; i < n; i++ {
		paths := []string{}
		for k := 0; k < 8; k++ {
			paths = append(paths, c15RandPath(rng))
		}
		lines := []string{}
		for k := 0; k < 1+rng.Intn(3); k++ {
			lines = append(lines, c15RandPattern(rng, paths))
		}
		text := strings.Join(lines, "\n")
		if rng.Intn(2) == 0 {
			text += "\n"
		}
		m, err := ignore.ParseIgnoreFile(strings.NewReader(text))
		errText := ""
		res := []bool{}
		if err != nil {
			errText = err.Error()
		}
		pl := [][]int{}
		for _, p := range paths {
			pl = append(pl, verifkit.Runes(p))
			if err == nil {
				res = append(res, m.Match(p))
			}
		}
		tr.Emit(verifkit.M{"ev": "glob", "text": verifkit.Runes(text), "paths": pl, "match": res, "err": errText})
	}
}

var c15Comps = []string{"a", "b", "src", "lib", "x.go", "y.txt", "z.md", "Makefile", "a.b.c", "é", ".git", ".hg", "doc", "ab", "c.go"}

func c15RandPath(rng *rand.Rand) string {
	n := 1 + rng.Intn(4)
	parts := []string{}
	for i := 0; i < n; i++ {
		parts = append(parts, c15Comps[rng.Intn(len(c15Comps))])
	}
	return strings.Join(parts, "/")
}

// c15RandPattern draws one ignore-file line of the dialect of Glob.tla (no escapes, no
// {a,b} alternatives, classes well formed), mostly derived from the given paths.
func c15RandPattern(rng *rand.Rand, paths []string) string {
	p := paths[rng.Intn(len(paths))]
	parts := strings.Split(p, "/")
	var line string
	switch rng.Intn(16) {
	case 0: // a directory prefix, literally (implicit ** unless it has a dot)
		line = strings.Join(parts[:1+rng.Intn(len(parts))], "/")
	case 1:
		line = "/" + strings.Join(parts[:1+rng.Intn(len(parts))], "/")
	case 2:
		line = strings.Join(parts[:1+rng.Intn(len(parts))], "/") + "/"
	case 3:
		line = "*" + filepath.Ext(p)
	case 4:
		line = "**/*" + filepath.Ext(p)
	case 5:
		line = "**" + filepath.Ext(p)
	case 6:
		line = parts[0] + "/*"
	case 7:
		line = parts[0] + "/**"
	case 8: // replace one character by ?
		rs := []rune(p)
		rs[rng.Intn(len(rs))] = '?'
		line = string(rs)
	case 9: // replace one component by *
		parts[rng.Intn(len(parts))] = "*"
		line = strings.Join(parts, "/")
	case 10: // class on the first character
		rs := []rune(p)
		cls := []string{"[a-c]", "[!a-c]", "[abs]", "[!xyz]", "[é.]"}[rng.Intn(5)]
		line = cls + string(rs[1:])
	case 11:
		line = "# " + p
	case 12:
		line = "  " + p + " \t"
	case 13:
		line = "**/" + parts[len(parts)-1]
	case 14:
		line = "*/" + parts[len(parts)-1]
	default:
		line = p
	}
	return line
}

// ---------------------------------------------------------------- seeded random trees

type c15Gen struct {
	rng     *rand.Rand
	sizeMax int
	entries []c15Entry
	files   []string
	dirs    []string
	nextCID int
	shared  []ingest.CD
}

func (g *c15Gen) content() ingest.CD {
	if len(g.shared) > 0 && g.rng.Intn(5) == 0 {
		return g.shared[g.rng.Intn(len(g.shared))]
	}
	g.nextCID++
	id := g.nextCID
	var cd ingest.CD
	switch x := g.rng.Intn(20); {
	case x == 0:
		cd = ingest.Syn(0, 0, false)
	case x == 1:
		cd = ingest.Syn(id, 1+g.rng.Intn(2), false)
	case x == 2:
		cd = ingest.Syn(id, g.sizeMax+1+g.rng.Intn(3)*7, false)
	case x == 3:
		cd = ingest.Syn(id, g.sizeMax-g.rng.Intn(2), false)
	case x == 4:
		cd = ingest.Syn(id, 6+g.rng.Intn(g.sizeMax-6), true)
	case x == 5:
		cd = ingest.Syn(id, 3, false)
	default:
		cd = ingest.Syn(id, 4+g.rng.Intn(g.sizeMax-4), false)
	}
	g.shared = append(g.shared, cd)
	return cd
}

func (g *c15Gen) add(path, kind string, cd ingest.CD) {
	g.entries = append(g.entries, c15Entry{Path: verifkit.Runes(path), Kind: kind, CD: cd})
	switch kind {
	case "file":
		g.files = append(g.files, path)
	case "dir":
		g.dirs = append(g.dirs, path)
	}
}

func (g *c15Gen) target(from string) string {
	switch x := g.rng.Intn(10); {
	case x < 3 && len(g.files) > 0:
		f := g.files[g.rng.Intn(len(g.files))]
		rel, err := filepath.Rel(filepath.Dir(from), f)
		if err == nil {
			return rel
		}
		return f
	case x < 5 && len(g.dirs) > 0:
		d := g.dirs[g.rng.Intn(len(g.dirs))]
		rel, err := filepath.Rel(filepath.Dir(from), d)
		if err == nil {
			return rel
		}
		return d
	case x == 5:
		return ".."
	case x == 6:
		return "/etc/passwd"
	case x == 7:
		return filepath.Base(from) // loop
	case x == 8:
		return strings.Repeat("long/", g.sizeMax/5+1) + "x"
	default:
		return []string{"nowhere", "a", "../../outside.txt", "é/ß"}[g.rng.Intn(4)]
	}
}

func (g *c15Gen) fill(dir string, depth int) {
	n := g.rng.Intn(6)
	if depth == 0 {
		n = 2 + g.rng.Intn(6)
	}
	used := map[string]bool{".sourcegraph": true}
	for i := 0; i < n; i++ {
		name := c15Comps[g.rng.Intn(len(c15Comps))]
		if g.rng.Intn(6) == 0 {
			name = c15IgnoreDirs[g.rng.Intn(3)]
		}
		if used[name] {
			continue
		}
		used[name] = true
		p := name
		if dir != "" {
			p = dir + "/" + name
		}
		isIgnoredName := name == ".git" || name == ".hg" || name == ".svn"
		switch x := g.rng.Intn(20); {
		case (x < 5 || (isIgnoredName && x < 14)) && depth < 4:
			g.add(p, "dir", ingest.Syn(0, 0, false))
			g.fill(p, depth+1)
		case x < 16:
			g.add(p, "file", g.content())
		default:
			g.add(p, "symlink", ingest.LitText(g.target(p)))
		}
	}
}

func c15RandTree(rng *rand.Rand, sizeMax int) []c15Entry {
	g := &c15Gen{rng: rng, sizeMax: sizeMax}
	g.fill("", 0)
	paths := append(append([]string{}, g.files...), g.dirs...)
	sort.Strings(paths)
	if len(paths) == 0 {
		paths = []string{"none"}
	}
	patterns := func() string {
		lines := []string{}
		for k := 0; k < 1+rng.Intn(4); k++ {
			lines = append(lines, c15RandPattern(rng, paths))
		}
		return strings.Join(lines, "\n") + "\n"
	}
	switch x := rng.Intn(20); {
	case x < 11: // the ordinary case
		g.add(".sourcegraph", "dir", ingest.Syn(0, 0, false))
		g.add(".sourcegraph/ignore", "file", ingest.LitText(patterns()))
		if rng.Intn(4) == 0 {
			g.add(".sourcegraph/other.txt", "file", g.content())
		}
	case x < 13: // ignore file is a symlink to a file with patterns: not followed
		g.add("patterns.txt", "file", ingest.LitText(patterns()))
		g.add(".sourcegraph", "dir", ingest.Syn(0, 0, false))
		g.add(".sourcegraph/ignore", "symlink", ingest.LitText("../patterns.txt"))
	case x < 15: // .sourcegraph is a symlink to a directory holding an ignore file: not followed
		g.add("cfg", "dir", ingest.Syn(0, 0, false))
		g.add("cfg/ignore", "file", ingest.LitText(patterns()))
		g.add(".sourcegraph", "symlink", ingest.LitText("cfg"))
	case x < 16: // .sourcegraph is a file
		g.add(".sourcegraph", "file", ingest.LitText(patterns()))
	case x < 17: // ignore is a directory
		g.add(".sourcegraph", "dir", ingest.Syn(0, 0, false))
		g.add(".sourcegraph/ignore", "dir", ingest.Syn(0, 0, false))
		g.add(".sourcegraph/ignore/x.go", "file", g.content())
	}
	return g.entries
}

func TestVerif_C15_DirRandom(t *testing.T) {
	tr := verifkit.Open(t)
	defer tr.Close()
	base := t.TempDir()
	n := verifkit.EnvInt("C15_RANDOM", verifkit.Pick(250, 4000))
	for i := 0; i < n; i++ {
		rng := verifkit.Rng(int64(1000 + i))
		sizeMax := []int{48, 64, 100}[rng.Intn(3)]
		c15RunDir(t, tr, base, i, sizeMax, c15RandTree(rng, sizeMax))
	}
}
