//go:build verif

package main

// C12: crash / fault atomicity of installing an index (index.Builder.Finish, delta sidecars,
// SetTombstone on compound shards, the indexserver's mergeMeta).
//
// The python side (checks/c12.py) starts this test binary as a *child process* with
// VERIF_C12_ROLE set; the work is done in init() on the main goroutine, which the Go runtime
// keeps wired to the main OS thread during package initialisation, so that every file-system
// mutation of the operation is issued by one thread (tid == pid) and strace's per-thread
// `when=` counters address it deterministically.  Roles:
//   prep   (not traced) build the old index
//   build  (under strace) the replacing operation; exit 0 = it reported success, 3 = it
//          reported an error, anything else = the driver itself failed
//   load   (not traced, fresh process) load the surviving directory with the real
//          search.NewDirectorySearcher and print its projection
// Without VERIF_C12_ROLE the file does nothing.

import (
	"context"
	"encoding/json"
	"fmt"
	"os"
	"path/filepath"
	"runtime"
	"sort"
	"strings"

	"github.com/sourcegraph/zoekt"
	"github.com/sourcegraph/zoekt/index"
	"github.com/sourcegraph/zoekt/query"
	"github.com/sourcegraph/zoekt/search"
)

type c12Cfg struct {
	Mode    string   `json:"mode"` // full | delta | meta | compound
	K       int      `json:"k"`    // old shards
	M       int      `json:"m"`    // new shards (full, compound)
	D       int      `json:"d"`    // documents per class
	Sidecar bool     `json:"sidecar"`
	Dir     string   `json:"dir"`
	Dirs    []string `json:"dirs"` // load: several surviving directories, one view line each
}

const (
	c12RepoID   = 7
	c12RepoName = "repoX"
	c12DocLen   = 64
)

func init() {
	role := os.Getenv("VERIF_C12_ROLE")
	if role == "" {
		return
	}
	runtime.LockOSThread()
	var cfg c12Cfg
	if err := json.Unmarshal([]byte(os.Getenv("VERIF_C12_CFG")), &cfg); err != nil {
		fmt.Fprintln(os.Stderr, "c12: bad VERIF_C12_CFG:", err)
		os.Exit(70)
	}
	switch role {
	case "prep":
		if err := c12Prep(cfg); err != nil {
			fmt.Fprintln(os.Stderr, "c12 prep:", err)
			os.Exit(70)
		}
		os.Exit(0)
	case "build":
		err, fatal := c12Build(cfg)
		if fatal != nil {
			fmt.Fprintln(os.Stderr, "c12 build (driver):", fatal)
			os.Exit(70)
		}
		if err != nil {
			fmt.Fprintln(os.Stderr, "c12 build reported:", err)
			os.Exit(3)
		}
		os.Exit(0)
	case "load":
		dirs := cfg.Dirs
		if len(dirs) == 0 {
			dirs = []string{cfg.Dir}
		}
		for _, d := range dirs {
			cfg.Dir = d
			if err := c12Load(cfg); err != nil {
				fmt.Fprintln(os.Stderr, "c12 load:", err)
				os.Exit(70)
			}
		}
		os.Exit(0)
	}
	fmt.Fprintln(os.Stderr, "c12: unknown role", role)
	os.Exit(70)
}

func c12Content(ver int, cls string, idx, j int) []byte {
	s := fmt.Sprintf("V%d %s %d J%d ", ver, cls, idx, j)
	for len(s) < c12DocLen-1 {
		s += "x"
	}
	return []byte(s + "\n")
}

func c12Path(shard int, kind string, j int) string {
	return fmt.Sprintf("s%02d/%s%03d.txt", shard, kind, j)
}

func c12Opts(dir, name string, id uint32, bv string, pub string, docsPerShard int) index.Options {
	docSize := len(c12Path(0, "o", 0)) + c12DocLen
	return index.Options{
		IndexDir:     dir,
		Parallelism:  1,
		DisableCTags: true,
		ShardMax:     docsPerShard*docSize - 1,
		RepositoryDescription: zoekt.Repository{
			ID:        id,
			Name:      name,
			Branches:  []zoekt.RepositoryBranch{{Name: "main", Version: bv}},
			RawConfig: map[string]string{"public": pub},
		},
	}
}

func c12Add(b *index.Builder, path string, content []byte) error {
	return b.Add(index.Document{Name: path, Content: content, Branches: []string{"main"}})
}

// old index of repoX: K shards, shard i holds class (o,i) and class (c,i), D documents each.
func c12BuildOld(dir string, cfg c12Cfg, name string, id uint32, oCls, cCls string) error {
	b, err := index.NewBuilder(c12Opts(dir, name, id, "v1", "0", 2*cfg.D))
	if err != nil {
		return err
	}
	for i := 0; i < cfg.K; i++ {
		for j := 0; j < cfg.D; j++ {
			if err := c12Add(b, c12Path(i, "o", j), c12Content(1, oCls, i, j)); err != nil {
				return err
			}
		}
		for j := 0; j < cfg.D; j++ {
			if err := c12Add(b, c12Path(i, "c", j), c12Content(1, cCls, i, j)); err != nil {
				return err
			}
		}
	}
	return b.Finish()
}

func c12Prep(cfg c12Cfg) error {
	if err := os.MkdirAll(cfg.Dir, 0o755); err != nil {
		return err
	}
	if cfg.Mode == "compound" {
		// repoX (one shard) and repoY live together in a compound shard
		tmp := filepath.Join(cfg.Dir, "..", filepath.Base(cfg.Dir)+".simple")
		if err := os.MkdirAll(tmp, 0o755); err != nil {
			return err
		}
		defer os.RemoveAll(tmp)
		one := cfg
		one.K = 1
		if err := c12BuildOld(tmp, one, c12RepoName, c12RepoID, "o", "c"); err != nil {
			return err
		}
		if err := c12BuildOld(tmp, one, "repoY", 8, "y", "z"); err != nil {
			return err
		}
		names, _ := filepath.Glob(filepath.Join(tmp, "*.zoekt"))
		sort.Strings(names)
		var files []index.IndexFile
		for _, fn := range names {
			f, err := os.Open(fn)
			if err != nil {
				return err
			}
			defer f.Close()
			inf, err := index.NewIndexFile(f)
			if err != nil {
				return err
			}
			defer inf.Close()
			files = append(files, inf)
		}
		if len(files) != 2 {
			return fmt.Errorf("expected 2 simple shards, got %v", names)
		}
		t, d, err := index.Merge(cfg.Dir, files...)
		if err != nil {
			return err
		}
		return os.Rename(t, d)
	}
	if cfg.K == 0 {
		return nil // no index yet (a Builder without documents would still write an empty shard)
	}
	if err := c12BuildOld(cfg.Dir, cfg, c12RepoName, c12RepoID, "o", "c"); err != nil {
		return err
	}
	if cfg.Sidecar {
		// a sidecar per old shard, as left behind by an earlier metadata update
		names, _ := filepath.Glob(filepath.Join(cfg.Dir, "*.zoekt"))
		for _, fn := range names {
			repos, _, err := index.ReadMetadataPath(fn)
			if err != nil {
				return err
			}
			repos[0].URL = "http://old.example/sidecar"
			t, d, err := index.JsonMarshalRepoMetaTemp(fn, repos[0])
			if err != nil {
				return err
			}
			if err := os.Rename(t, d); err != nil {
				return err
			}
		}
	}
	return nil
}

// the replacing operation.  (reported, driverFailure)
func c12Build(cfg c12Cfg) (error, error) {
	switch cfg.Mode {
	case "full", "compound":
		o := c12Opts(cfg.Dir, c12RepoName, c12RepoID, "v2", "0", cfg.D)
		o.ShardMerging = cfg.Mode == "compound"
		b, err := index.NewBuilder(o)
		if err != nil {
			return nil, err
		}
		for i := 0; i < cfg.M; i++ {
			for j := 0; j < cfg.D; j++ {
				if err := c12Add(b, c12Path(i, "o", j), c12Content(2, "n", i, j)); err != nil {
					return nil, fmt.Errorf("add: %w", err)
				}
			}
		}
		return b.Finish(), nil
	case "delta":
		// one delta shard holding the re-indexed (c,i) documents of every old shard
		o := c12Opts(cfg.Dir, c12RepoName, c12RepoID, "v2", "0", cfg.K*cfg.D)
		o.IsDelta = true
		b, err := index.NewBuilder(o)
		if err != nil {
			return nil, err
		}
		for i := 0; i < cfg.K; i++ {
			for j := 0; j < cfg.D; j++ {
				p := c12Path(i, "c", j)
				b.MarkFileAsChangedOrRemoved(p)
				if err := c12Add(b, p, c12Content(2, "d", i, j)); err != nil {
					return nil, fmt.Errorf("add: %w", err)
				}
			}
		}
		return b.Finish(), nil
	case "meta":
		o := c12Opts(cfg.Dir, c12RepoName, c12RepoID, "v1", "1", 2*cfg.D)
		o.SetDefaults()
		return mergeMeta(&o), nil
	}
	return nil, fmt.Errorf("unknown mode %q", cfg.Mode)
}

type c12ViewEl struct {
	K   string `json:"k"`
	I   int    `json:"i"`
	BV  int    `json:"bv"`
	Pub int    `json:"pub"`
	N   int    `json:"n"`
}

func c12Load(cfg c12Cfg) error {
	ss, err := search.NewDirectorySearcher(cfg.Dir)
	if err != nil {
		return err
	}
	defer ss.Close()
	ctx := context.Background()
	all, err := ss.Search(ctx, &query.Const{Value: true}, &zoekt.SearchOptions{Whole: true})
	if err != nil {
		return err
	}
	var rcq query.Q = query.RawConfig(query.RcOnlyPublic)
	pub, err := ss.Search(ctx, rcq, &zoekt.SearchOptions{Whole: true})
	if err != nil {
		return err
	}
	isPub := map[string]int{}
	for _, fm := range pub.Files {
		isPub[fm.Repository+"\x00"+fm.FileName+"\x00"+string(fm.Content)]++
	}
	type key struct {
		k       string
		i       int
		bv, pub int
	}
	agg := map[key]int{}
	bad := []string{}
	for _, fm := range all.Files {
		var ver, idx, j int
		var cls string
		if _, err := fmt.Sscanf(string(fm.Content), "V%d %s %d J%d ", &ver, &cls, &idx, &j); err != nil || len(fm.Content) != c12DocLen {
			bad = append(bad, fm.FileName)
			continue
		}
		bv := 0
		if strings.HasPrefix(fm.Version, "v") {
			fmt.Sscanf(fm.Version, "v%d", &bv)
		}
		p := isPub[fm.Repository+"\x00"+fm.FileName+"\x00"+string(fm.Content)]
		if p > 1 {
			p = 1
		}
		agg[key{cls, idx, bv, p}]++
	}
	view := []c12ViewEl{}
	for k, n := range agg {
		view = append(view, c12ViewEl{k.k, k.i, k.bv, k.pub, n})
	}
	sort.Slice(view, func(a, b int) bool {
		x, y := view[a], view[b]
		if x.K != y.K {
			return x.K < y.K
		}
		if x.I != y.I {
			return x.I < y.I
		}
		if x.BV != y.BV {
			return x.BV < y.BV
		}
		return x.Pub < y.Pub
	})
	files, _ := filepath.Glob(filepath.Join(cfg.Dir, "*"))
	names := []string{}
	for _, f := range files {
		names = append(names, filepath.Base(f))
	}
	out, _ := json.Marshal(map[string]any{
		"dir": cfg.Dir, "view": view, "bad": bad, "crashes": all.Stats.Crashes + pub.Stats.Crashes, "files": names,
		"nfiles": len(all.Files),
	})
	fmt.Printf("C12VIEW %s\n", out)
	return nil
}
