//go:build verif

package main

// C38: incremental indexing skips only up-to-date repositories.
//
// A probe corpus (files around every threshold the build options know: size vs SizeMax, trigram
// count vs TrigramMax, files matching a LargeFiles pattern, symbol-bearing files, a binary) is
// indexed with configuration A by the real index.Builder.  For every single-field and pairwise
// change of the options and of the repository description, B, the driver
//   - asks the real Options.IndexState() / IncrementalSkipIndexing() with B against A's index,
//   - ALSO builds B into a second directory,
//   - for state meta-mismatch runs the indexserver's real mergeMeta on a copy of A's index,
// and records (A, B, state, view of A's index, view of B's index, view after mergeMeta), the
// views being read through the public read path (search.NewDirectorySearcher: documents with
// name, stored content, branches, language, symbols; repository metadata through List).
// Trace_Incremental.tla decides.  ctags is not installed: two fake ctags programs (a python
// script speaking the interactive protocol of universal-ctags, one named *scip-ctags*) stand in,
// their output is an input to the specification.

import (
	"context"
	"crypto/sha256"
	"encoding/hex"
	"fmt"
	"io"
	"log"
	"os"
	"path/filepath"
	"regexp/syntax"
	"runtime"
	"sort"
	"strings"
	"sync"
	"testing"

	"github.com/sourcegraph/zoekt"
	"github.com/sourcegraph/zoekt/index"
	"github.com/sourcegraph/zoekt/internal/ctags"
	"github.com/sourcegraph/zoekt/internal/verifkit"
	"github.com/sourcegraph/zoekt/query"
	"github.com/sourcegraph/zoekt/search"
)

const c38FakeCtags = `#!/usr/bin/env python3
import json, os, re, sys
flavour = "scip" if "scip" in os.path.basename(sys.argv[0]) else "universal"
if "--help" in sys.argv:
    print("fake ctags for verification\n  +interactive")
    sys.exit(0)
out = sys.stdout
out.write(json.dumps({"_type": "program", "name": "fake-" + flavour, "version": "1"}) + "\n")
out.flush()
inp = sys.stdin.buffer
while True:
    line = inp.readline()
    if not line:
        break
    req = json.loads(line)
    data = inp.read(req["size"])
    text = data.decode("utf8", "replace")
    for i, l in enumerate(text.split("\n")):
        m = re.match(r"(func|def) (\w+)", l)
        if m:
            out.write(json.dumps({"_type": "tag", "name": m.group(2), "path": req["filename"], "language": "X",
                                  "line": i + 1, "kind": "function" if flavour == "universal" else "method"}) + "\n")
    out.write(json.dumps({"_type": "completed", "command": "generate-tags"}) + "\n")
    out.flush()
`

// ------------------------------------------------------------------ configuration

type c38Cfg struct {
	// build options
	SizeMax          int
	TrigramMax       int
	LargeFiles       []string
	DisableCTags     bool
	CTagsPath        string // symbolic: "", "U", "U2"
	ScipCTagsPath    string // symbolic: "", "S"
	CTagsMustSucceed bool
	LanguageMap      string // "", "go:scip", "go:no"
	ShardMax         int
	Parallelism      int
	// repository description
	Name                 string
	ID                   uint32
	TenantID             int
	Branches             []zoekt.RepositoryBranch
	URL                  string
	CommitURLTemplate    string
	FileURLTemplate      string
	LineFragmentTemplate string
	RawConfig            map[string]string
	Metadata             map[string]string
}

func (c c38Cfg) clone() c38Cfg {
	d := c
	d.LargeFiles = append([]string{}, c.LargeFiles...)
	d.Branches = append([]zoekt.RepositoryBranch{}, c.Branches...)
	d.RawConfig = map[string]string{}
	for k, v := range c.RawConfig {
		d.RawConfig[k] = v
	}
	d.Metadata = map[string]string{}
	for k, v := range c.Metadata {
		d.Metadata[k] = v
	}
	return d
}

func c38KV(m map[string]string) []string {
	res := []string{}
	for k, v := range m {
		res = append(res, k+"="+v)
	}
	sort.Strings(res)
	return res
}

func c38Brs(bs []zoekt.RepositoryBranch) []string {
	res := []string{}
	for _, b := range bs {
		res = append(res, b.Name+"@"+b.Version)
	}
	return res
}

func c38Pairs(m map[string]string) []verifkit.M {
	res := []verifkit.M{}
	keys := []string{}
	for k := range m {
		keys = append(keys, k)
	}
	sort.Strings(keys)
	for _, k := range keys {
		res = append(res, verifkit.M{"k": k, "v": m[k]})
	}
	return res
}

// the record the specification sees (values after SetDefaults, as every real caller has them)
func (c c38Cfg) json() verifkit.M {
	lf := []verifkit.M{}
	for _, p := range c.LargeFiles {
		lf = append(lf, verifkit.M{"p": strings.TrimPrefix(p, "!"), "neg": strings.HasPrefix(p, "!")})
	}
	return verifkit.M{
		"SizeMax": c.SizeMax, "TrigramMax": c.TrigramMax, "LargeFiles": lf,
		"DisableCTags": c.DisableCTags, "CTagsPath": c.CTagsPath, "ScipCTagsPath": c.ScipCTagsPath,
		"CTagsMustSucceed": c.CTagsMustSucceed, "LanguageMap": c.LanguageMap, "ShardMax": c.ShardMax,
		"Parallelism": c.Parallelism,
		"Name":        c.Name, "ID": int(c.ID), "TenantID": c.TenantID, "Branches": c38Brs(c.Branches), "URL": c.URL,
		"CommitURLTemplate": c.CommitURLTemplate, "FileURLTemplate": c.FileURLTemplate,
		"LineFragmentTemplate": c.LineFragmentTemplate, "RawConfig": c38Pairs(c.RawConfig), "Metadata": c38Pairs(c.Metadata),
	}
}

type c38Env struct {
	fakes map[string]string // symbolic ctags path -> real path
	work  string
}

func (e *c38Env) options(c c38Cfg, dir string) index.Options {
	o := index.Options{
		IndexDir:         dir,
		SizeMax:          c.SizeMax,
		TrigramMax:       c.TrigramMax,
		LargeFiles:       append([]string(nil), c.LargeFiles...),
		DisableCTags:     c.DisableCTags,
		CTagsPath:        e.fakes[c.CTagsPath],
		ScipCTagsPath:    e.fakes[c.ScipCTagsPath],
		CTagsMustSucceed: c.CTagsMustSucceed,
		ShardMax:         c.ShardMax,
		Parallelism:      c.Parallelism,
		RepositoryDescription: zoekt.Repository{
			Name: c.Name, ID: c.ID, TenantID: c.TenantID,
			Branches:             append([]zoekt.RepositoryBranch(nil), c.Branches...),
			URL:                  c.URL,
			CommitURLTemplate:    c.CommitURLTemplate,
			FileURLTemplate:      c.FileURLTemplate,
			LineFragmentTemplate: c.LineFragmentTemplate,
		},
	}
	if len(o.LargeFiles) == 0 {
		o.LargeFiles = nil
	}
	if len(c.RawConfig) > 0 {
		o.RepositoryDescription.RawConfig = map[string]string{}
		for k, v := range c.RawConfig {
			o.RepositoryDescription.RawConfig[k] = v
		}
	}
	if len(c.Metadata) > 0 {
		o.RepositoryDescription.Metadata = map[string]string{}
		for k, v := range c.Metadata {
			o.RepositoryDescription.Metadata[k] = v
		}
	}
	switch c.LanguageMap {
	case "go:scip":
		o.LanguageMap = ctags.LanguageMap{"go": ctags.ScipCTags}
	case "go:no":
		o.LanguageMap = ctags.LanguageMap{"go": ctags.NoCTags}
	}
	o.SetDefaults()
	return o
}

// ------------------------------------------------------------------ probe corpus

type c38Doc struct {
	Name    string
	Content []byte
	Br      []int // positions in the branch list
	// what the specification is told about the document
	Tri   int      // distinct trigrams
	Match []string // LargeFiles patterns (without "!") that match the name
	Lang  string   // language class for the language map ("go", "python", "")
	Syms  int      // lines a ctags program reports a symbol for
	Bin   bool
}

// n+2 distinct characters: exactly n distinct trigrams
func c38Distinct(n int) []byte {
	alpha := "abcdefghijklmnopqrstuvwxyzABCDEFGHIJKLMNOPQRSTUVWXYZ0123456789"
	return []byte(alpha[:n+2])
}

func c38CountTrigrams(b []byte) int {
	seen := map[string]bool{}
	r := []rune(string(b))
	for i := 0; i+3 <= len(r); i++ {
		seen[string(r[i:i+3])] = true
	}
	return len(seen)
}

func c38Rep(n int) []byte { return []byte(strings.Repeat("ab", n/2+1)[:n]) }

func c38Corpus() []c38Doc {
	mk := func(name string, content []byte, br []int, _ []string, lang string, syms int) c38Doc {
		bin := false
		for _, x := range content {
			if x == 0 {
				bin = true
			}
		}
		// the LargeFiles patterns used by the probes (without "!") that match the name
		match := []string{}
		if strings.HasSuffix(name, ".big") {
			match = append(match, "*.big")
		}
		if strings.HasPrefix(name, "s") {
			match = append(match, "s*")
		}
		return c38Doc{Name: name, Content: content, Br: br, Tri: c38CountTrigrams(content), Match: match, Lang: lang, Syms: syms, Bin: bin}
	}
	none := []string{}
	big := []string{"*.big"}
	return []c38Doc{
		mk("tiny.txt", []byte("abc"), []int{0, 1}, none, "", 0),
		// size vs SizeMax 300 / 2000 / 5000 (two distinct trigrams only)
		mk("s0299.txt", c38Rep(299), []int{0}, none, "", 0),
		mk("s0300.txt", c38Rep(300), []int{0}, none, "", 0),
		mk("s0301.txt", c38Rep(301), []int{0, 1}, none, "", 0),
		mk("s2000.txt", c38Rep(2000), []int{1}, none, "", 0),
		mk("s2001.txt", c38Rep(2001), []int{0}, none, "", 0),
		mk("s5001.txt", c38Rep(5001), []int{0}, none, "", 0),
		mk("s2500.big", c38Rep(2500), []int{0}, big, "", 0),
		// trigram count vs TrigramMax 5 / 40 / 20000
		mk("t005.txt", c38Distinct(5), []int{0}, none, "", 0),
		mk("t006.txt", c38Distinct(6), []int{0, 1}, none, "", 0),
		mk("t030.txt", c38Distinct(30), []int{1}, none, "", 0),
		mk("t041.txt", c38Distinct(41), []int{0}, none, "", 0),
		mk("t050.big", c38Distinct(50), []int{0}, big, "", 0),
		// symbol bearing
		mk("sym.go", []byte("package probe\n\nfunc Alpha() {}\n\nfunc Beta() {}\n"), []int{0, 1}, none, "go", 2),
		mk("sym.py", []byte("def gamma():\n    return 1\n"), []int{0}, none, "python", 1),
		mk("bin.dat", []byte("ab\x00cdefgh"), []int{0}, none, "", 0),
	}
}

// ------------------------------------------------------------------ building and viewing

func (e *c38Env) build(c c38Cfg, dir string) (errStr string) {
	if err := os.MkdirAll(dir, 0o755); err != nil {
		return "mkdir: " + err.Error()
	}
	opts := e.options(c, dir)
	if p := verifkit.Catch(func() {
		b, err := index.NewBuilder(opts)
		if err != nil {
			errStr = "NewBuilder: " + err.Error()
			return
		}
		for _, d := range c38Corpus() {
			var brs []string
			for _, i := range d.Br {
				if i < len(c.Branches) {
					brs = append(brs, c.Branches[i].Name)
				}
			}
			if len(brs) == 0 {
				continue
			}
			if err := b.Add(index.Document{Name: d.Name, Content: append([]byte(nil), d.Content...), Branches: brs}); err != nil {
				errStr = "Add: " + err.Error()
				b.Finish()
				return
			}
		}
		if err := b.Finish(); err != nil {
			errStr = "Finish: " + err.Error()
		}
	}); p != nil {
		errStr = fmt.Sprintf("panic: %v", p)
	}
	return errStr
}

func c38Hash(b []byte) string {
	h := sha256.Sum256(b)
	return hex.EncodeToString(h[:6])
}

// c38View reads an index directory through the public read path.
func c38View(dir string) (verifkit.M, error) {
	ss, err := search.NewDirectorySearcher(dir)
	if err != nil {
		return nil, err
	}
	defer ss.Close()
	ctx := context.Background()
	re, _ := syntax.Parse(".", syntax.Perl)
	syms := map[string][]string{}
	kinds := map[string]map[string]bool{}
	sr, err := ss.Search(ctx, &query.Symbol{Expr: &query.Regexp{Regexp: re, Content: true}}, &zoekt.SearchOptions{})
	if err != nil {
		return nil, err
	}
	for _, f := range sr.Files {
		key := f.FileName + "\x00" + strings.Join(f.Branches, ",")
		for _, lm := range f.LineMatches {
			for _, fr := range lm.LineFragments {
				s := "-"
				if fr.SymbolInfo != nil {
					s = fr.SymbolInfo.Sym + "/" + fr.SymbolInfo.Kind + "/" + fr.SymbolInfo.Parent
					if kinds[key] == nil {
						kinds[key] = map[string]bool{}
					}
					kinds[key][fr.SymbolInfo.Kind] = true
				}
				syms[key] = append(syms[key], fmt.Sprintf("%d:%d+%d:%s", lm.LineNumber, fr.LineOffset, fr.MatchLength, s))
			}
		}
		sort.Strings(syms[key])
	}
	sr, err = ss.Search(ctx, &query.Const{Value: true}, &zoekt.SearchOptions{Whole: true})
	if err != nil {
		return nil, err
	}
	docs := []verifkit.M{}
	for _, f := range sr.Files {
		key := f.FileName + "\x00" + strings.Join(f.Branches, ",")
		k := "indexed"
		if strings.HasPrefix(string(f.Content), "NOT-INDEXED: ") {
			k = "skipped"
		}
		var ks []string
		for x := range kinds[key] {
			ks = append(ks, x)
		}
		sort.Strings(ks)
		docs = append(docs, verifkit.M{"n": f.FileName, "k": k, "c": c38Hash(f.Content), "b": strings.Join(f.Branches, ","),
			"l": f.Language, "s": c38Hash([]byte(strings.Join(syms[key], ";"))), "sk": strings.Join(ks, ",")})
	}
	sort.Slice(docs, func(i, j int) bool {
		a, b := docs[i], docs[j]
		if a["n"] != b["n"] {
			return a["n"].(string) < b["n"].(string)
		}
		return a["b"].(string) < b["b"].(string)
	})
	rl, err := ss.List(ctx, &query.Const{Value: true}, nil)
	if err != nil {
		return nil, err
	}
	metas := []verifkit.M{}
	seen := map[string]bool{}
	for _, r := range rl.Repos {
		x := r.Repository
		m := verifkit.M{"Name": x.Name, "ID": int(x.ID), "TenantID": x.TenantID, "Branches": c38Brs(x.Branches), "URL": x.URL,
			"CommitURLTemplate": x.CommitURLTemplate, "FileURLTemplate": x.FileURLTemplate,
			"LineFragmentTemplate": x.LineFragmentTemplate, "RawConfig": c38KV(x.RawConfig), "Metadata": c38KV(x.Metadata),
			"HasSymbols": x.HasSymbols}
		k := fmt.Sprint(m)
		if !seen[k] {
			seen[k] = true
			metas = append(metas, m)
		}
	}
	return verifkit.M{"docs": docs, "metas": metas}, nil
}

func c38ShardSums(dir string) string {
	names, _ := filepath.Glob(filepath.Join(dir, "*.zoekt"))
	sort.Strings(names)
	var sb strings.Builder
	for _, n := range names {
		b, _ := os.ReadFile(n)
		sb.WriteString(filepath.Base(n) + ":" + c38Hash(b) + ";")
	}
	return sb.String()
}

func c38CopyDir(src, dst string) error {
	if err := os.MkdirAll(dst, 0o755); err != nil {
		return err
	}
	ents, err := os.ReadDir(src)
	if err != nil {
		return err
	}
	for _, e := range ents {
		b, err := os.ReadFile(filepath.Join(src, e.Name()))
		if err != nil {
			return err
		}
		if err := os.WriteFile(filepath.Join(dst, e.Name()), b, 0o644); err != nil {
			return err
		}
	}
	return nil
}

// ------------------------------------------------------------------ changes

type c38Change struct {
	Field string
	Var   string
	Apply func(c *c38Cfg)
}

func c38Changes(base c38Cfg) []c38Change {
	var cs []c38Change
	add := func(field, v string, f func(c *c38Cfg)) { cs = append(cs, c38Change{field, v, f}) }
	add("SizeMax", "300", func(c *c38Cfg) { c.SizeMax = 300 })
	add("SizeMax", "5000", func(c *c38Cfg) { c.SizeMax = 5000 })
	add("TrigramMax", "5", func(c *c38Cfg) { c.TrigramMax = 5 })
	add("TrigramMax", "40", func(c *c38Cfg) { c.TrigramMax = 40 })
	add("TrigramMax", "100000", func(c *c38Cfg) { c.TrigramMax = 100000 })
	add("LargeFiles", "*.big", func(c *c38Cfg) { c.LargeFiles = []string{"*.big"} })
	add("LargeFiles", "*.big,!s*", func(c *c38Cfg) { c.LargeFiles = []string{"*.big", "!s*"} })
	add("LargeFiles", "!s*,*.big", func(c *c38Cfg) { c.LargeFiles = []string{"!s*", "*.big"} })
	add("LargeFiles", "none", func(c *c38Cfg) { c.LargeFiles = nil })
	add("DisableCTags", "toggle", func(c *c38Cfg) { c.DisableCTags = !c.DisableCTags })
	if base.CTagsPath == "" {
		add("CTagsPath", "U", func(c *c38Cfg) { c.CTagsPath = "U" })
	} else {
		add("CTagsPath", "none", func(c *c38Cfg) { c.CTagsPath = "" })
		add("CTagsPath", "U2", func(c *c38Cfg) { c.CTagsPath = "U2" })
	}
	if base.ScipCTagsPath == "" {
		add("ScipCTagsPath", "S", func(c *c38Cfg) { c.ScipCTagsPath = "S" })
	} else {
		add("ScipCTagsPath", "none", func(c *c38Cfg) { c.ScipCTagsPath = "" })
	}
	add("CTagsMustSucceed", "toggle", func(c *c38Cfg) { c.CTagsMustSucceed = !c.CTagsMustSucceed })
	add("LanguageMap", "go:scip", func(c *c38Cfg) { c.LanguageMap = "go:scip" })
	add("LanguageMap", "go:no", func(c *c38Cfg) { c.LanguageMap = "go:no" })
	if base.ShardMax == 1500 {
		add("ShardMax", "1MiB", func(c *c38Cfg) { c.ShardMax = 1 << 20 })
	} else {
		add("ShardMax", "1500", func(c *c38Cfg) { c.ShardMax = 1500 })
	}
	add("Parallelism", "4", func(c *c38Cfg) { c.Parallelism = 4 })
	// repository description
	add("Branches", "version", func(c *c38Cfg) { c.Branches[0].Version = "v1-next" })
	add("Branches", "version2", func(c *c38Cfg) { c.Branches[1].Version = "v2-next" })
	add("Branches", "rename", func(c *c38Cfg) { c.Branches[1].Name = "stable" })
	add("Branches", "swap", func(c *c38Cfg) { c.Branches[0], c.Branches[1] = c.Branches[1], c.Branches[0] })
	add("Branches", "drop", func(c *c38Cfg) { c.Branches = c.Branches[:1] })
	add("Branches", "add", func(c *c38Cfg) {
		c.Branches = append(c.Branches, zoekt.RepositoryBranch{Name: "rel", Version: "v3"})
	})
	add("URL", "other", func(c *c38Cfg) { c.URL = "https://git.example.org/other" })
	add("CommitURLTemplate", "other", func(c *c38Cfg) { c.CommitURLTemplate = "{{.URL}}/c/{{.Version}}" })
	add("FileURLTemplate", "other", func(c *c38Cfg) { c.FileURLTemplate = "{{.URL}}/f/{{.Version}}/{{.Path}}" })
	add("LineFragmentTemplate", "other", func(c *c38Cfg) { c.LineFragmentTemplate = "#line{{.LineNumber}}" })
	add("RawConfig", "value", func(c *c38Cfg) { c.RawConfig["archived"] = "1" })
	add("RawConfig", "priority", func(c *c38Cfg) { c.RawConfig["priority"] = "25" })
	add("RawConfig", "newkey", func(c *c38Cfg) { c.RawConfig["newkey"] = "x" })
	add("RawConfig", "removed", func(c *c38Cfg) { delete(c.RawConfig, "fork") })
	add("Name", "other", func(c *c38Cfg) { c.Name = "c38/renamed" })
	add("ID", "other", func(c *c38Cfg) { c.ID = 3838; c.RawConfig["repoid"] = "3838" })
	add("Metadata", "newkey", func(c *c38Cfg) { c.Metadata["license"] = "MIT" })
	add("Metadata", "value", func(c *c38Cfg) { c.Metadata["team"] = "search" })
	add("TenantID", "other", func(c *c38Cfg) { c.TenantID = 2; c.RawConfig["tenantID"] = "2" })
	return cs
}

func c38Bases() map[string]c38Cfg {
	desc := c38Cfg{
		Name: "c38/probe", ID: 38, TenantID: 1,
		Branches:             []zoekt.RepositoryBranch{{Name: "main", Version: "v1"}, {Name: "dev", Version: "v2"}},
		URL:                  "https://git.example.org/c38/probe",
		CommitURLTemplate:    "{{.URL}}/commit/{{.Version}}",
		FileURLTemplate:      "{{.URL}}/blob/{{.Version}}/{{.Path}}",
		LineFragmentTemplate: "#L{{.LineNumber}}",
		RawConfig: map[string]string{"repoid": "38", "priority": "1", "public": "1", "fork": "0", "archived": "0",
			"latestCommitDate": "1", "tenantID": "1"},
		Metadata: map[string]string{"team": "code"},
	}
	a1 := desc.clone()
	a1.SizeMax, a1.TrigramMax, a1.ShardMax, a1.Parallelism = 2000, 20000, 1<<20, 1
	a1.DisableCTags = true
	a2 := a1.clone()
	a2.DisableCTags = false
	a2.CTagsPath, a2.ScipCTagsPath = "U", "S"
	a3 := a2.clone()
	a3.LanguageMap = "go:scip"
	a4 := a1.clone()
	a4.ShardMax = 1500 // several shards: IndexState reads the first, mergeMeta must patch all
	// two LargeFiles patterns of opposite polarity that overlap (s2500.big matches both): their order
	// decides what is indexed, so a reordered list is a content-affecting change
	a5 := a1.clone()
	a5.LargeFiles = []string{"*.big", "!s*"}
	return map[string]c38Cfg{"A1-noctags": a1, "A2-ctags": a2, "A3-scip": a3, "A4-multishard": a4, "A5-largefiles": a5}
}

// ------------------------------------------------------------------ the driver

type c38Probe struct {
	base   string
	fields []string
	vars   []string
	b      c38Cfg
	fault  string
}

func TestVerif_C38_Probe(t *testing.T) {
	tr := verifkit.Open(t)
	defer tr.Close()
	log.SetOutput(io.Discard)
	work := os.Getenv("VERIF_WORK")
	if work == "" {
		work = t.TempDir()
	}
	work = filepath.Join(work, "c38")
	os.RemoveAll(work)
	if err := os.MkdirAll(work, 0o755); err != nil {
		t.Fatal(err)
	}
	env := &c38Env{work: work, fakes: map[string]string{"": ""}}
	for sym, name := range map[string]string{"U": "fake-universal-ctags", "U2": "fake-universal-ctags-2", "S": "fake-scip-ctags"} {
		p := filepath.Join(work, name)
		if err := os.WriteFile(p, []byte(c38FakeCtags), 0o755); err != nil {
			t.Fatal(err)
		}
		env.fakes[sym] = p
	}

	// what the specification is told about the corpus
	cdocs := []verifkit.M{}
	for _, d := range c38Corpus() {
		cdocs = append(cdocs, verifkit.M{"n": d.Name, "size": len(d.Content), "tri": d.Tri, "match": d.Match, "lang": d.Lang,
			"syms": d.Syms, "bin": d.Bin, "br": d.Br})
	}
	tr.Emit(verifkit.M{"ev": "corpus", "docs": cdocs})

	bases := c38Bases()
	var baseNames []string
	for n := range bases {
		baseNames = append(baseNames, n)
	}
	sort.Strings(baseNames)
	// quick: bases A1 and A3 get all single changes, all option-option pairs and a seeded sample
	// of the other pairs, A2 and A4 the single changes; thorough: every pair on A1 and A3, single
	// changes and option-option pairs on A2 and A4
	pairSample := verifkit.EnvInt("C38_PAIRS", verifkit.Pick(25, 1<<30))
	var probes []c38Probe
	baseDir := map[string]string{}
	for _, bn := range baseNames {
		a := bases[bn]
		dir := filepath.Join(work, "base-"+bn)
		baseDir[bn] = dir
		if e := env.build(a, dir); e != "" {
			t.Fatalf("building base %s: %s", bn, e)
		}
		v, err := c38View(dir)
		if err != nil {
			t.Fatal(err)
		}
		tr.Emit(verifkit.M{"ev": "base", "base": bn, "cfg": a.json(), "view": v})
		cs := c38Changes(a)
		isOpt := func(c c38Change) bool {
			switch c.Field {
			case "SizeMax", "TrigramMax", "LargeFiles", "DisableCTags", "CTagsPath", "ScipCTagsPath", "CTagsMustSucceed",
				"LanguageMap", "ShardMax", "Parallelism":
				return true
			}
			return false
		}
		// the unchanged request, every single change, every pair of changes of different fields
		probes = append(probes, c38Probe{base: bn, fields: []string{}, vars: []string{}, b: a.clone(), fault: "none"})
		for _, c := range cs {
			b := a.clone()
			c.Apply(&b)
			probes = append(probes, c38Probe{base: bn, fields: []string{c.Field}, vars: []string{c.Var}, b: b, fault: "none"})
		}
		var others []c38Probe
		for i, c1 := range cs {
			for _, c2 := range cs[i+1:] {
				if c1.Field == c2.Field {
					continue
				}
				b := a.clone()
				c1.Apply(&b)
				c2.Apply(&b)
				p := c38Probe{base: bn, fields: []string{c1.Field, c2.Field}, vars: []string{c1.Var, c2.Var}, b: b, fault: "none"}
				minor := bn == "A2-ctags" || bn == "A4-multishard" || bn == "A5-largefiles"
				if minor && (!verifkit.Thorough() || !(isOpt(c1) && isOpt(c2))) {
					continue
				}
				if isOpt(c1) && isOpt(c2) {
					probes = append(probes, p)
				} else {
					others = append(others, p)
				}
			}
		}
		rng := verifkit.Rng(int64(3800 + len(probes)))
		rng.Shuffle(len(others), func(i, j int) { others[i], others[j] = others[j], others[i] })
		if len(others) > pairSample {
			others = others[:pairSample]
		}
		probes = append(probes, others...)
		// damaged / missing index (the request is the unchanged A and one changed option)
		for _, f := range []string{"no-index", "truncated", "bad-meta", "empty-shard"} {
			probes = append(probes, c38Probe{base: bn, fields: []string{}, vars: []string{}, b: a.clone(), fault: f})
		}
	}

	results := make([]verifkit.M, len(probes))
	errs := make([]error, len(probes))
	workers := runtime.NumCPU() / 2
	if workers > 8 {
		workers = 8
	}
	if workers < 1 {
		workers = 1
	}
	var wg sync.WaitGroup
	next := make(chan int)
	for w := 0; w < workers; w++ {
		wg.Add(1)
		go func() {
			defer wg.Done()
			for i := range next {
				results[i], errs[i] = env.probe(i, probes[i], bases[probes[i].base], baseDir[probes[i].base])
			}
		}()
	}
	for i := range probes {
		next <- i
	}
	close(next)
	wg.Wait()
	for i := range probes {
		if errs[i] != nil {
			t.Fatalf("probe %d (%v %v): harness failure: %v", i, probes[i].fields, probes[i].vars, errs[i])
		}
		tr.Emit(results[i])
	}
}

var c38EmptyView = verifkit.M{"docs": []verifkit.M{}, "metas": []verifkit.M{}}

func (e *c38Env) probe(i int, p c38Probe, a c38Cfg, aDir string) (verifkit.M, error) {
	dir := filepath.Join(e.work, fmt.Sprintf("p%05d", i))
	defer os.RemoveAll(dir)
	// the index the request is compared with: A's, or a damaged copy
	ixDir := aDir
	if p.fault != "none" {
		ixDir = filepath.Join(dir, "ix")
		if p.fault == "no-index" {
			if err := os.MkdirAll(ixDir, 0o755); err != nil {
				return nil, err
			}
		} else {
			if err := c38CopyDir(aDir, ixDir); err != nil {
				return nil, err
			}
			shards, _ := filepath.Glob(filepath.Join(ixDir, "*.zoekt"))
			if len(shards) == 0 {
				return nil, fmt.Errorf("no shard in %s", aDir)
			}
			sort.Strings(shards)
			switch p.fault {
			case "truncated":
				b, _ := os.ReadFile(shards[0])
				if err := os.WriteFile(shards[0], b[:len(b)/2], 0o644); err != nil {
					return nil, err
				}
			case "empty-shard":
				if err := os.WriteFile(shards[0], nil, 0o644); err != nil {
					return nil, err
				}
			case "bad-meta":
				if err := os.WriteFile(shards[0]+".meta", []byte("{not json"), 0o644); err != nil {
					return nil, err
				}
			}
		}
	}
	bo := e.options(p.b, ixDir)
	var state index.IndexState
	var skip bool
	if pn := verifkit.Catch(func() {
		state, _ = bo.IndexState()
		skip = bo.IncrementalSkipIndexing()
	}); pn != nil {
		state = index.IndexState(fmt.Sprintf("panic: %v", pn))
	}

	// what a build with B gives
	bDir := filepath.Join(dir, "b")
	buildErr := e.build(p.b, bDir)
	viewB := c38EmptyView
	if buildErr == "" {
		v, err := c38View(bDir)
		if err != nil {
			return nil, fmt.Errorf("view of B: %v", err)
		}
		viewB = v
	}

	// the metadata path of the indexserver
	merged := verifkit.M{"ran": false, "err": "", "view": c38EmptyView, "shards_unchanged": true, "state_after": ""}
	if state == index.IndexStateMeta {
		mDir := filepath.Join(dir, "m")
		if err := c38CopyDir(ixDir, mDir); err != nil {
			return nil, err
		}
		before := c38ShardSums(mDir)
		mo := e.options(p.b, mDir)
		merr := ""
		if pn := verifkit.Catch(func() {
			if err := mergeMeta(&mo); err != nil {
				merr = err.Error()
			}
		}); pn != nil {
			merr = fmt.Sprintf("panic: %v", pn)
		}
		v, err := c38View(mDir)
		if err != nil {
			return nil, fmt.Errorf("view after mergeMeta: %v", err)
		}
		mo2 := e.options(p.b, mDir)
		after, _ := mo2.IndexState()
		merged = verifkit.M{"ran": true, "err": merr, "view": v, "shards_unchanged": before == c38ShardSums(mDir),
			"state_after": string(after)}
	}
	return verifkit.M{"ev": "probe", "base": p.base, "fields": p.fields, "vars": p.vars, "fault": p.fault, "cfg": p.b.json(),
		"state": string(state), "skip": skip, "build_err": buildErr, "view": viewB, "merged": merged}, nil
}
