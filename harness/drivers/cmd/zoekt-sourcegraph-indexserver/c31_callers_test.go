//go:build verif

package main

// C31 (callers): a global operation works on the directory as it is while it holds the global lock.
// Server.merge is started while an index job for repository r2 holds its repository lock; the job
// then changes what is eligible for merging (r2 gets a second shard) and returns.  A merge that is
// mutually exclusive with the job sees the directory after the job: the shards handed to the merge
// command must be the candidates computed from that directory.  Recorded as ev = "caller"
// (saw = what the merge command got, want = pickCandidates(loadCandidates) afterwards) together with
// the enter/exit events of the job; judged by Trace_IndexMutex.tla.

import (
	"fmt"
	"io"
	"os"
	"os/exec"
	"path/filepath"
	"sort"
	"strings"
	"testing"
	"time"

	"github.com/sourcegraph/zoekt"
	"github.com/sourcegraph/zoekt/index"
	"github.com/sourcegraph/zoekt/internal/verifkit"
)

func c31Index(dir string, r, v, ndocs int, shardMax int) error {
	opts := index.Options{
		IndexDir: dir,
		RepositoryDescription: zoekt.Repository{
			ID: uint32(r), Name: fmt.Sprintf("r%d", r),
			Branches:         []zoekt.RepositoryBranch{{Name: "HEAD", Version: fmt.Sprintf("v%d", v)}},
			RawConfig:        map[string]string{"public": "1", "priority": fmt.Sprint(r)},
			LatestCommitDate: time.Unix(1600000000, 0),
		},
		DisableCTags: true, Parallelism: 1, ShardMax: shardMax, ShardMerging: true,
	}
	opts.SetDefaults()
	b, err := index.NewBuilder(opts)
	if err != nil {
		return err
	}
	for j := 0; j < ndocs; j++ {
		if err := b.Add(index.Document{Name: fmt.Sprintf("f%d.txt", j), Content: []byte(strings.Repeat(fmt.Sprintf("r%d v%d doc%d ", r, v, j), 40)), Branches: []string{"HEAD"}}); err != nil {
			return err
		}
	}
	return b.Finish()
}

func c31Bases(paths []string) []string {
	out := []string{}
	for _, p := range paths {
		out = append(out, filepath.Base(p))
	}
	sort.Strings(out)
	return out
}

func TestVerif_C31_Callers(t *testing.T) {
	tr := verifkit.Open(t)
	defer tr.Close()
	infoLog.SetOutput(io.Discard)
	errorLog.SetOutput(io.Discard)
	rounds := verifkit.Pick(3, 12)
	seq := int64(0)
	next := func() int64 { seq++; return seq }
	for round := 0; round < rounds; round++ {
		dir, err := os.MkdirTemp(os.Getenv("VERIF_WORK"), "c31callers")
		if err != nil {
			t.Fatal(err)
		}
		nrepo := 3 + round%3
		for r := 1; r <= nrepo; r++ {
			if err := c31Index(dir, r, 1, 2, 1<<20); err != nil {
				t.Fatal(err)
			}
		}
		srv := &Server{IndexDir: dir}
		victim := 1 + round%nrepo
		// pickCandidates takes shards in directory order until the target size is reached.
		// even rounds: target = size of all shards: before the job every shard is needed, after it (the
		//   victim has become ineligible) the target cannot be reached: no merge at all;
		// odd rounds: target = size of all shards but the victim's: after the job exactly the others.
		var total, vsize int64
		ents, _ := os.ReadDir(dir)
		for _, e := range ents {
			if fi, err := e.Info(); err == nil && strings.HasSuffix(e.Name(), ".zoekt") {
				total += fi.Size()
				if strings.HasPrefix(e.Name(), fmt.Sprintf("r%d_", victim)) {
					vsize = fi.Size()
				}
			}
		}
		srv.mergeOpts.targetSizeBytes = total
		if round%2 == 1 {
			srv.mergeOpts.targetSizeBytes = total - vsize
		}
		entered, gate, jobDone := make(chan struct{}), make(chan struct{}), make(chan struct{})
		tr.Emit(verifkit.M{"ev": "reset", "procs": 2, "script": 200000 + round})
		go func() {
			defer close(jobDone)
			srv.muIndexDir.With(fmt.Sprintf("r%d", victim), func() {
				close(entered)
				<-gate
				// the index job: the repository now needs several shards, which makes it ineligible
				if err := c31Index(dir, victim, 2, 6, 600); err != nil {
					t.Errorf("index job: %v", err)
				}
			})
		}()
		<-entered
		var saw []string
		called := false
		mergeDone := make(chan struct{})
		gid := make(chan int64, 1)
		go func() {
			defer close(mergeDone)
			gid <- verifkit.QGoID()
			srv.merge(func(args ...string) *exec.Cmd {
				// the view is what is judged here, not the merge itself: report failure, which ends merge's loop
				if !called {
					called = true
					saw = append([]string{}, args...)
				}
				return exec.Command("false")
			})
		}()
		// give the merge every chance to do (wrongly) whatever it does before taking the lock
		mg := <-gid
		st, okq := verifkit.QWait([]int64{mg}, func() int64 { return 0 }, 20*time.Second) // until the merge goroutine is parked (on the lock)
		if os.Getenv("VERIF_DEBUG") != "" {
			fmt.Fprintf(os.Stderr, "c31 callers: merge goroutine %d: %+v ok=%v\n", mg, st[mg], okq)
		}
		close(gate)
		<-jobDone
		select {
		case <-mergeDone:
		case <-time.After(60 * time.Second):
			tr.Close()
			t.Fatalf("c31 callers: merge did not return (inconclusive)")
		}
		// what a merge that starts now picks (the merge command above changed nothing)
		cands, _ := loadCandidates(dir, srv.mergeOpts)
		c := pickCandidates(cands, srv.mergeOpts.targetSizeBytes)
		var want []string
		if len(c.shards) > 1 {
			for _, s := range c.shards {
				want = append(want, s.path)
			}
		}
		multi, _ := filepath.Glob(filepath.Join(dir, fmt.Sprintf("r%d_v*.00001.zoekt", victim)))
		tr.Emit(verifkit.M{"ev": "caller", "op": "merge", "called": called, "saw": c31Bases(saw), "want": c31Bases(want),
			"seq": next(), "victim": fmt.Sprintf("r%d", victim), "victim_shards_after": len(multi) + 1})
		os.RemoveAll(dir)
	}
}
