//go:build verif

package main

// SYS: system-level conformance of spec/sys/ZoektSeq.tla (the operation-level reading of the root
// model spec/sys/Zoekt.tla).  Every script is a sequence of operations on one index directory:
//
//	index r v   real index.Builder with Options.ShardMerging = true, Finish
//	merge       real Server.merge with a mergeCmd that runs the really built zoekt-merge-index
//	vacuum min  real Server.vacuum() (zoekt-merge-index found through PATH); min = 0: tombstones are
//	            removed by self-merge, min = 1: minSizeBytes is huge, the compound shard is exploded
//	cleanup     real cleanup(indexDir, assigned, now, true)
//	assign r / unassign r / tick (25 h) / crash r (a *.tmp left by a killed indexer)
//
// After every operation the directory is projected (listing + index.ReadMetadata through the sidecar
// + the metadata and the documents embedded in the shard + file names decoded independently) and a
// fresh search.NewDirectorySearcher reports what a searcher sees (List and a whole-content search).
// The scripts are executed as a tree: a common prefix runs once, the directory is saved before the
// histories part and restored for each continuation.  One event per executed operation: the
// operation with the observation before (= after the preceding operation) and after it.
// Nothing is judged here: the events go to Trace_ZoektSeq.tla.

import (
	"bytes"
	"context"
	"crypto/sha1"
	"encoding/json"
	"errors"
	"fmt"
	"io"
	"log"
	"os"
	"os/exec"
	"path/filepath"
	"regexp"
	"runtime"
	"sort"
	"strconv"
	"strings"
	"testing"
	"time"

	"github.com/sourcegraph/zoekt"
	"github.com/sourcegraph/zoekt/index"
	"github.com/sourcegraph/zoekt/internal/verifkit"
	"github.com/sourcegraph/zoekt/query"
	"github.com/sourcegraph/zoekt/search"
)

type sysOp struct {
	Op  string `json:"op"`
	R   int    `json:"r"`
	V   int    `json:"v"`
	Min int    `json:"min"`
}

type sysScript struct {
	Repos int     `json:"repos"` // repositories 1..Repos are assigned at the start
	Ops   []sysOp `json:"ops"`
}

type sysMem struct {
	ID  int  `json:"id"`
	Ver int  `json:"ver"`
	Tb  bool `json:"tb"`
}

// embedded in the shard: metadata version and the version its documents carry
type sysRaw struct {
	ID  int `json:"id"`
	Ver int `json:"ver"`
	Cv  int `json:"cv"`
}

// one shard file.  l: "i" index directory | "t" .trash;  k: "s" simple | "c" compound;
// nm: the repository ids whose names make up the file name (simple: the repository; compound: the
// sequence whose sha1 is in the name);  mt: mtime in hours since the epoch of the run (trash only,
// 0 in the index directory);  mf: a .meta sidecar exists;  mem: what ReadMetadata reports (through
// the sidecar);  raw: what is embedded in the shard itself, position by position.
type sysFile struct {
	L   string   `json:"l"`
	K   string   `json:"k"`
	Nm  []int    `json:"nm"`
	Mt  int      `json:"mt"`
	Mf  bool     `json:"mf"`
	Mem []sysMem `json:"mem"`
	Raw []sysRaw `json:"raw"`
}

// what the directory searcher shows for one repository: n = Stats.Shards of its List entry,
// lv = version in the List entry, docs = number of documents found, cv = distinct versions in them
type sysVis struct {
	ID   int   `json:"id"`
	N    int   `json:"n"`
	Lv   int   `json:"lv"`
	Docs int   `json:"docs"`
	Cv   []int `json:"cv"`
}

var sysEpoch = time.Unix(1_700_000_000, 0)

const sysMaxRepo = 3

func sysName(r int) string { return fmt.Sprintf("r%d", r) }

// documents of repository r: repository 2 has two, the others one
func sysDocs(r int) int {
	if r == 2 {
		return 2
	}
	return 1
}

func sysContent(r, v, j int) []byte {
	return []byte(fmt.Sprintf("zqR%dV%dD%d lorem ipsum dolor sit amet %s\n", r, v, j, strings.Repeat("x", 10*r)))
}

func sysIndex(dir string, r, v int) error {
	opts := index.Options{
		IndexDir: dir,
		RepositoryDescription: zoekt.Repository{
			ID:        uint32(r),
			Name:      sysName(r),
			Branches:  []zoekt.RepositoryBranch{{Name: "HEAD", Version: fmt.Sprintf("v%d", v)}},
			RawConfig: map[string]string{"public": "1", "priority": strconv.Itoa(r)},
			// getTombstonedRepos prefers the copy with the latest commit: later version = later commit
			LatestCommitDate: sysEpoch.Add(-1000 * 24 * time.Hour).Add(time.Duration(v) * 24 * time.Hour),
		},
		DisableCTags: true,
		Parallelism:  1,
		ShardMax:     1 << 14, // the documents are tiny; the default pre-allocates for 100 MB shards
		ShardMerging: true,
	}
	opts.SetDefaults()
	b, err := index.NewBuilder(opts)
	if err != nil {
		return err
	}
	for j := 0; j < sysDocs(r); j++ {
		if err := b.Add(index.Document{Name: fmt.Sprintf("f%d.txt", j), Content: sysContent(r, v, j), Branches: []string{"HEAD"}}); err != nil {
			return err
		}
	}
	return b.Finish()
}

// a *.tmp file as a killed indexer leaves it: a complete shard under the builder's temporary name
func sysCrash(dir, staging string, r, n int) error {
	if err := os.RemoveAll(staging); err != nil {
		return err
	}
	if err := os.MkdirAll(staging, 0o755); err != nil {
		return err
	}
	if err := sysIndex(staging, r, 9); err != nil {
		return err
	}
	src := filepath.Join(staging, fmt.Sprintf("%s_v%d.00000.zoekt", sysName(r), index.IndexFormatVersion))
	data, err := os.ReadFile(src)
	if err != nil {
		return err
	}
	return os.WriteFile(filepath.Join(dir, fmt.Sprintf("%s_v%d.00000.zoekt.%d.tmp", sysName(r), index.IndexFormatVersion, 100000+n)), data, 0o644)
}

// every shard that holds one repository must be picked (pickCandidates stops as soon as the
// target is reached, and gives up if it is not reached): the target is the total size of the
// shard files in the index directory that list exactly one repository (the driver's own reading)
func sysMergeTarget(dir string) int64 {
	ents, _ := os.ReadDir(dir)
	var total int64
	for _, e := range ents {
		if e.IsDir() || filepath.Ext(e.Name()) != ".zoekt" {
			continue
		}
		data, err := os.ReadFile(filepath.Join(dir, e.Name()))
		if err != nil {
			continue
		}
		repos, _, err := index.ReadMetadata(&sysMemFile{name: filepath.Join(dir, e.Name()), data: data})
		if err == nil && len(repos) == 1 {
			total += int64(len(data))
		}
	}
	if total == 0 {
		total = 1
	}
	return total
}

// ---------------------------------------------------------------- projection

var sysSimpleRE = regexp.MustCompile(`^r(\d+)_v(\d+)\.(\d{5})\.zoekt$`)
var sysCompoundRE = regexp.MustCompile(`^compound-([0-9a-f]{40})_v(\d+)\.(\d{5})\.zoekt$`)

// sha1 of every sequence of distinct repository names -> the sequence of ids
var sysHashes = func() map[string][]int {
	res := map[string][]int{}
	var rec func(seq []int)
	rec = func(seq []int) {
		h := sha1.New()
		for _, r := range seq {
			h.Write([]byte(sysName(r)))
			h.Write([]byte{0})
		}
		res[fmt.Sprintf("%x", h.Sum(nil))] = append([]int{}, seq...)
		for r := 1; r <= sysMaxRepo; r++ {
			used := false
			for _, x := range seq {
				used = used || x == r
			}
			if !used {
				rec(append(append([]int{}, seq...), r))
			}
		}
	}
	rec(nil)
	return res
}()

type sysMemFile struct {
	name string
	data []byte
}

func (m *sysMemFile) Read(off, sz uint32) ([]byte, error) {
	if uint64(off)+uint64(sz) > uint64(len(m.data)) {
		return nil, fmt.Errorf("out of bounds: %d+%d > %d", off, sz, len(m.data))
	}
	return m.data[off : off+sz], nil
}
func (m *sysMemFile) Size() (uint32, error) { return uint32(len(m.data)), nil }
func (m *sysMemFile) Close()                {}
func (m *sysMemFile) Name() string          { return m.name }

func sysVer(r *zoekt.Repository) int {
	if len(r.Branches) != 1 || !strings.HasPrefix(r.Branches[0].Version, "v") {
		return 0
	}
	v, err := strconv.Atoi(r.Branches[0].Version[1:])
	if err != nil {
		return 0
	}
	return v
}

type sysProj struct {
	Files []sysFile
	Tmp   int
	Junk  []string
}

func sysProject(root string) sysProj {
	p := sysProj{Files: []sysFile{}, Junk: []string{}}
	for _, l := range []string{"i", "t"} {
		dir := root
		if l == "t" {
			dir = filepath.Join(root, ".trash")
		}
		ents, err := os.ReadDir(dir)
		if err != nil {
			if l == "i" || !os.IsNotExist(err) {
				p.Junk = append(p.Junk, "readdir:"+l)
			}
			continue
		}
		names := map[string]bool{}
		for _, e := range ents {
			names[e.Name()] = true
		}
		for _, e := range ents {
			n := e.Name()
			switch {
			case l == "i" && n == ".trash" && e.IsDir():
			case e.IsDir():
				p.Junk = append(p.Junk, l+":dir:"+n)
			case strings.HasSuffix(n, ".zoekt"):
				sysProjectShard(dir, l, n, names[n+".meta"], &p)
			case strings.HasSuffix(n, ".zoekt.meta"):
				if !names[strings.TrimSuffix(n, ".meta")] {
					p.Junk = append(p.Junk, l+":orphan-meta:"+n)
				}
			case l == "i" && strings.HasSuffix(n, ".tmp"):
				p.Tmp++
			default:
				p.Junk = append(p.Junk, l+":file:"+n)
			}
		}
	}
	sort.Slice(p.Files, func(i, j int) bool {
		a, b := p.Files[i], p.Files[j]
		if a.L != b.L {
			return a.L < b.L
		}
		if a.K != b.K {
			return a.K < b.K
		}
		return fmt.Sprint(a.Nm) < fmt.Sprint(b.Nm)
	})
	sort.Strings(p.Junk)
	return p
}

func sysProjectShard(dir, l, n string, hasMeta bool, p *sysProj) {
	path := filepath.Join(dir, n)
	x := sysFile{L: l, Mf: hasMeta, Nm: []int{}, Mem: []sysMem{}, Raw: []sysRaw{}}
	if m := sysSimpleRE.FindStringSubmatch(n); m != nil {
		r, _ := strconv.Atoi(m[1])
		x.K, x.Nm = "s", []int{r}
		if m[2] != strconv.Itoa(index.IndexFormatVersion) || m[3] != "00000" {
			p.Junk = append(p.Junk, l+":simple-name:"+n)
		}
	} else if m := sysCompoundRE.FindStringSubmatch(n); m != nil {
		x.K = "c"
		seq, ok := sysHashes[m[1]]
		if !ok || m[2] != strconv.Itoa(index.NextIndexFormatVersion) || m[3] != "00000" {
			p.Junk = append(p.Junk, l+":compound-name:"+n)
		}
		x.Nm = append(x.Nm, seq...)
	} else {
		p.Junk = append(p.Junk, l+":shard-name:"+n)
		return
	}
	if l == "t" {
		x.Mt = 777777
		if fi, err := os.Stat(path); err == nil {
			if d := fi.ModTime().Sub(sysEpoch); d%time.Hour == 0 {
				x.Mt = int(d / time.Hour)
			}
		}
	}
	data, err := os.ReadFile(path)
	if err != nil {
		p.Junk = append(p.Junk, l+":unreadable:"+n)
		return
	}
	// what every reader of the shard sees (index.ReadMetadata consults <path>.meta) ...
	// (a shard without any repository cannot be read: index.ErrEmptyShard; it is recorded without members)
	repos, _, err := index.ReadMetadata(&sysMemFile{name: path, data: data})
	if err != nil && !errors.Is(err, index.ErrEmptyShard) {
		p.Junk = append(p.Junk, l+":unreadable:"+n)
		return
	}
	for _, r := range repos {
		x.Mem = append(x.Mem, sysMem{ID: int(r.ID), Ver: sysVer(r), Tb: r.Tombstone})
		if r.Name != sysName(int(r.ID)) {
			p.Junk = append(p.Junk, l+":repo-name:"+r.Name)
		}
	}
	// ... and what is embedded in the shard (read under a name that has no sidecar): metadata and,
	// through a searcher on the bare file, the documents of every repository in it
	bare := &sysMemFile{name: filepath.Join(dir, "no-such-dir", n), data: data}
	raw, _, err := index.ReadMetadata(bare)
	if err == nil {
		cv := map[int]int{}
		if sr, err := index.NewSearcher(bare); err == nil {
			res, err := sr.Search(context.Background(), &query.Const{Value: true}, &zoekt.SearchOptions{Whole: true})
			if err != nil {
				p.Junk = append(p.Junk, l+":bare-search:"+n)
			} else {
				docs := map[int]int{}
				for _, fm := range res.Files {
					var r, v, j int
					if _, err := fmt.Sscanf(string(fm.Content), "zqR%dV%dD%d ", &r, &v, &j); err != nil || int(fm.RepositoryID) != r {
						p.Junk = append(p.Junk, l+":bare-doc:"+n)
						continue
					}
					if old, ok := cv[r]; ok && old != v {
						p.Junk = append(p.Junk, l+":mixed-versions:"+n)
					}
					cv[r] = v
					docs[r]++
				}
				for r, c := range docs {
					if c != sysDocs(r) {
						p.Junk = append(p.Junk, fmt.Sprintf("%s:doc-count:%s:%d", l, n, r))
					}
				}
			}
		} else {
			p.Junk = append(p.Junk, l+":bare-load:"+n)
		}
		for _, r := range raw {
			if r.Tombstone {
				p.Junk = append(p.Junk, l+":embedded-tombstone:"+n)
			}
			x.Raw = append(x.Raw, sysRaw{ID: int(r.ID), Ver: sysVer(r), Cv: cv[int(r.ID)]})
		}
	}
	// the sidecar replaces the embedded list position by position
	same := len(x.Raw) == len(x.Mem)
	for i := 0; same && i < len(x.Raw); i++ {
		same = x.Raw[i].ID == x.Mem[i].ID
	}
	if !same {
		p.Junk = append(p.Junk, l+":sidecar-shape:"+n)
	}
	p.Files = append(p.Files, x)
}

func sysView(root string) ([]sysVis, []string) {
	junk := []string{}
	ss, err := search.NewDirectorySearcher(root)
	if err != nil {
		return []sysVis{}, []string{"searcher:" + err.Error()}
	}
	defer ss.Close()
	ctx := context.Background()
	vis := map[int]*sysVis{}
	rl, err := ss.List(ctx, &query.Const{Value: true}, nil)
	if err != nil {
		return []sysVis{}, []string{"list:" + err.Error()}
	}
	if rl.Crashes != 0 {
		junk = append(junk, "list-crashes")
	}
	for _, e := range rl.Repos {
		id := int(e.Repository.ID)
		if e.Repository.Name != sysName(id) || vis[id] != nil {
			junk = append(junk, "list-entry:"+e.Repository.Name)
			continue
		}
		vis[id] = &sysVis{ID: id, N: e.Stats.Shards, Lv: sysVer(&e.Repository), Cv: []int{}}
	}
	res, err := ss.Search(ctx, &query.Substring{Pattern: "zqR", CaseSensitive: true, Content: true}, &zoekt.SearchOptions{Whole: true})
	if err != nil {
		return []sysVis{}, []string{"search:" + err.Error()}
	}
	if res.Stats.Crashes != 0 {
		junk = append(junk, "search-crashes")
	}
	for _, fm := range res.Files {
		var r, v, j int
		if _, err := fmt.Sscanf(string(fm.Content), "zqR%dV%dD%d ", &r, &v, &j); err != nil || fm.Repository != sysName(r) ||
			int(fm.RepositoryID) != r || !bytes.Equal(fm.Content, sysContent(r, v, j)) || fm.FileName != fmt.Sprintf("f%d.txt", j) {
			junk = append(junk, "doc:"+fm.Repository+"/"+fm.FileName)
			continue
		}
		e := vis[r]
		if e == nil {
			e = &sysVis{ID: r, Cv: []int{}}
			vis[r] = e
		}
		e.Docs++
		seen := false
		for _, x := range e.Cv {
			seen = seen || x == v
		}
		if !seen {
			e.Cv = append(e.Cv, v)
		}
	}
	out := []sysVis{}
	for _, e := range vis {
		sort.Ints(e.Cv)
		out = append(out, *e)
	}
	sort.Slice(out, func(i, j int) bool { return out[i].ID < out[j].ID })
	sort.Strings(junk)
	return out, junk
}

// ---------------------------------------------------------------- replay

// what is observed after an operation
type sysObs struct {
	D    []sysFile `json:"d"`
	Tmp  int       `json:"tmp"`
	A    []int     `json:"a"`
	Clk  int       `json:"clk"`
	Last []int     `json:"last"` // last[r-1] = version of the last index run of r (the driver's own book-keeping)
	Vis  []sysVis  `json:"vis"`
}

// the part of a history that is not in the directory
type sysEnv struct {
	assigned [sysMaxRepo + 1]bool
	last     [sysMaxRepo + 1]int
	clk      int
	crashes  int
}

type sysRun struct {
	root     string
	staging  string
	mergeBin string
	srv      *Server
	tr       *verifkit.Trace
	steps    int
	spent    map[string]time.Duration // wall time by kind of work (reported in the test log only)
}

func (s *sysRun) observe(env sysEnv) (sysObs, []string) {
	p := sysProject(s.root)
	vis, vjunk := sysView(s.root)
	o := sysObs{D: p.Files, Tmp: p.Tmp, A: []int{}, Clk: env.clk, Last: []int{}, Vis: vis}
	for r := 1; r <= sysMaxRepo; r++ {
		if env.assigned[r] {
			o.A = append(o.A, r)
		}
		o.Last = append(o.Last, env.last[r])
	}
	return o, append(p.Junk, vjunk...)
}

func (s *sysRun) apply(env *sysEnv, op sysOp) (failed string, err error) {
	switch op.Op {
	case "index":
		env.last[op.R] = op.V
		if e := sysIndex(s.root, op.R, op.V); e != nil {
			failed = "index: " + e.Error()
		}
	case "crash":
		env.crashes++
		err = sysCrash(s.root, s.staging, op.R, env.crashes)
	case "merge":
		s.srv.mergeOpts.targetSizeBytes = sysMergeTarget(s.root)
		s.srv.merge(func(args ...string) *exec.Cmd {
			return exec.Command(s.mergeBin, append([]string{"merge"}, args...)...)
		})
	case "vacuum":
		if op.Min == 0 {
			s.srv.mergeOpts.minSizeBytes = 0
		} else {
			s.srv.mergeOpts.minSizeBytes = 1 << 40
		}
		s.srv.vacuum()
	case "cleanup":
		a := []uint32{}
		for r := 1; r <= sysMaxRepo; r++ {
			if env.assigned[r] {
				a = append(a, uint32(r))
			}
		}
		cleanup(s.root, a, sysEpoch.Add(time.Duration(env.clk)*time.Hour), true)
	case "assign":
		env.assigned[op.R] = true
	case "unassign":
		env.assigned[op.R] = false
	case "tick":
		env.clk += 25
	default:
		err = fmt.Errorf("unknown operation %q", op.Op)
	}
	if (op.Op == "index" || op.Op == "crash" || op.Op == "assign" || op.Op == "unassign") && (op.R < 1 || op.R > sysMaxRepo) {
		err = fmt.Errorf("bad repository in %+v", op)
	}
	return failed, err
}

// ---- the directory, saved and restored

type sysSnap struct {
	rel   string
	data  []byte
	mtime time.Time
}

func sysSnapshot(root string) ([]sysSnap, error) {
	var res []sysSnap
	for _, sub := range []string{"", ".trash"} {
		ents, err := os.ReadDir(filepath.Join(root, sub))
		if err != nil {
			return nil, err
		}
		for _, e := range ents {
			if e.IsDir() {
				continue
			}
			rel := filepath.Join(sub, e.Name())
			data, err := os.ReadFile(filepath.Join(root, rel))
			if err != nil {
				return nil, err
			}
			fi, err := e.Info()
			if err != nil {
				return nil, err
			}
			res = append(res, sysSnap{rel, data, fi.ModTime()})
		}
	}
	return res, nil
}

func sysWipe(root string) error {
	if err := os.RemoveAll(root); err != nil {
		return err
	}
	return os.MkdirAll(filepath.Join(root, ".trash"), 0o755)
}

func sysRestore(root string, snap []sysSnap) error {
	if err := sysWipe(root); err != nil {
		return err
	}
	for _, x := range snap {
		p := filepath.Join(root, x.rel)
		if err := os.WriteFile(p, x.data, 0o644); err != nil {
			return err
		}
		if err := os.Chtimes(p, x.mtime, x.mtime); err != nil {
			return err
		}
	}
	return nil
}

// ---- the scripts as a tree

type sysNode struct {
	op   sysOp
	sid  int // first script through this node and the position of the operation in it (1-based)
	j    int
	kids []*sysNode
}

func (n *sysNode) child(op sysOp, sid, j int) *sysNode {
	for _, k := range n.kids {
		if k.op == op {
			return k
		}
	}
	k := &sysNode{op: op, sid: sid, j: j}
	n.kids = append(n.kids, k)
	return k
}

func (s *sysRun) walk(n *sysNode, env sysEnv, before sysObs) error {
	var snap []sysSnap
	if len(n.kids) > 1 {
		var err error
		if snap, err = sysSnapshot(s.root); err != nil {
			return err
		}
	}
	for i, k := range n.kids {
		if i > 0 {
			t0 := time.Now()
			if err := sysRestore(s.root, snap); err != nil {
				return err
			}
			s.spent["restore"] += time.Since(t0)
		}
		e := env
		t0 := time.Now()
		failed, err := s.apply(&e, k.op)
		if err != nil {
			return fmt.Errorf("script %d step %d: %w", k.sid, k.j, err)
		}
		if k.op.Op == "index" || k.op.Op == "crash" {
			// every index.Builder allocates four 16 MB pointer tables (postingsBuilder.asciiPostings);
			// collecting them at once lets the next builder reuse the memory instead of faulting in
			// fresh pages (measured 3x on a busy machine)
			runtime.GC()
		}
		t1 := time.Now()
		after, junk := s.observe(e)
		s.spent[k.op.Op] += t1.Sub(t0)
		s.spent["observe"] += time.Since(t1)
		s.steps++
		s.tr.Emit(verifkit.M{"ev": "step", "sid": k.sid, "j": k.j, "op": k.op.Op, "r": k.op.R, "v": k.op.V, "min": k.op.Min,
			"pre": before, "post": after, "junk": junk, "failed": failed})
		if err := s.walk(k, e, after); err != nil {
			return err
		}
	}
	return nil
}

func TestVerif_SYS_Replay(t *testing.T) {
	scripts := verifkit.ReadScripts(t)
	tr := verifkit.Open(t)
	defer tr.Close()
	log.SetOutput(io.Discard)
	infoLog.SetOutput(io.Discard)
	errorLog.SetOutput(io.Discard)
	debugLog.SetOutput(io.Discard)

	mergeBin := os.Getenv("VERIF_SYS_MERGEBIN")
	if fi, err := os.Stat(mergeBin); err != nil || fi.IsDir() || filepath.Base(mergeBin) != "zoekt-merge-index" {
		t.Fatalf("VERIF_SYS_MERGEBIN must name the built zoekt-merge-index binary: %q", mergeBin)
	}
	// Server.vacuum and removeTombstones start "zoekt-merge-index" through PATH
	os.Setenv("PATH", filepath.Dir(mergeBin)+string(os.PathListSeparator)+os.Getenv("PATH"))
	if p, err := exec.LookPath("zoekt-merge-index"); err != nil || p != mergeBin {
		t.Fatalf("zoekt-merge-index on PATH is %q (%v), want %q", p, err, mergeBin)
	}

	work := os.Getenv("VERIF_SYS_SCRATCH")
	if work == "" {
		work = os.Getenv("VERIF_WORK")
	}
	if work == "" {
		work = t.TempDir()
	}
	base, err := os.MkdirTemp(work, "sys-*")
	if err != nil {
		t.Fatal(err)
	}
	defer os.RemoveAll(base)

	// one tree per number of initially assigned repositories
	roots := map[int]*sysNode{}
	var order []int
	for sid, raw := range scripts {
		var sc sysScript
		if err := json.Unmarshal(raw, &sc); err != nil {
			t.Fatalf("script %d: %v", sid, err)
		}
		if sc.Repos < 1 || sc.Repos > sysMaxRepo {
			t.Fatalf("script %d: repos = %d", sid, sc.Repos)
		}
		n := roots[sc.Repos]
		if n == nil {
			n = &sysNode{}
			roots[sc.Repos] = n
			order = append(order, sc.Repos)
		}
		for j, op := range sc.Ops {
			n = n.child(op, sid, j+1)
		}
	}
	s := &sysRun{root: filepath.Join(base, "index"), staging: filepath.Join(base, "staging"), mergeBin: mergeBin, tr: tr,
		spent: map[string]time.Duration{}}
	for _, repos := range order {
		if err := sysWipe(s.root); err != nil {
			t.Fatal(err)
		}
		s.srv = &Server{IndexDir: s.root}
		var env sysEnv
		for r := 1; r <= repos; r++ {
			env.assigned[r] = true
		}
		start, junk := s.observe(env)
		if len(junk) != 0 || len(start.D) != 0 {
			t.Fatalf("empty directory observed as %+v %v", start, junk)
		}
		if err := s.walk(roots[repos], env, start); err != nil {
			t.Fatal(err)
		}
	}
	t.Logf("SYS steps executed: %d; wall time by kind: %v", s.steps, s.spent)
}
