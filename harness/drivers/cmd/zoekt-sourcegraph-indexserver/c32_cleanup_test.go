//go:build verif

package main

import (
	"bytes"
	"encoding/json"
	"fmt"
	"io"
	"log"
	"os"
	"path/filepath"
	"regexp"
	"sort"
	"strconv"
	"strings"
	"sync"
	"testing"
	"time"

	"github.com/sourcegraph/zoekt"
	"github.com/sourcegraph/zoekt/index"
	"github.com/sourcegraph/zoekt/internal/verifkit"
)

// C32: every script is an abstract index directory produced by TLC from spec/sys/Cleanup.tla.
// It is materialised with real shards (real Builder, real Merge for the compound shard, real
// SetTombstone, os.Chtimes), the real cleanup(...) is run, and the directory is projected back
// without using anything of cleanup.go (directory listing + index.ReadMetadata on the bytes, cross-checked
// against the raw .meta sidecar).  The projections are written to the trace; the comparison with
// the model's prediction and the validation by Trace_Cleanup.tla happen outside.

type c32Mem struct {
	ID uint32 `json:"id"`
	Nm string `json:"nm"`
	Tb bool   `json:"tb"`
}

// abstract shard file: l = "i" (index dir) | "t" (.trash); f = "<repo name>.<shard number>" or
// "cmp" (the compound shard); mt = mtime in hours relative to the epoch of the run; mf = a .meta
// sidecar exists; mem = repositories recorded in the shard's metadata.
type c32File struct {
	L   string   `json:"l"`
	F   string   `json:"f"`
	Mt  int      `json:"mt"`
	Mf  bool     `json:"mf"`
	Mem []c32Mem `json:"mem"`
}

type c32Sec struct {
	A2  []uint32 `json:"a2"`
	Adv int      `json:"adv"`
}

type c32Script struct {
	A    []uint32  `json:"a"`
	M    bool      `json:"m"`
	Tmp  int       `json:"tmp"`
	Init []c32File `json:"init"`
	Sec  []c32Sec  `json:"sec"`
}

var c32Epoch = time.Unix(1_700_000_000, 0)

const c32BadTime = 777777

// ---------------------------------------------------------------- real shards

type c32Factory struct {
	mu      sync.Mutex
	staging string
	store   string              // directory shared by the replay processes ("" = none)
	simple  map[string][][]byte // "id/name" -> bytes of shard 0, shard 1
	cmp     map[string]c32Cmp   // member key -> compound shard
	meta    map[string][]byte   // compound key + tombstoned ids -> sidecar written by the real SetTombstone
}

type c32Cmp struct {
	key  string
	base string
	data []byte
}

func c32NewFactory(staging, store string) *c32Factory {
	return &c32Factory{staging: staging, store: store, simple: map[string][][]byte{}, cmp: map[string]c32Cmp{},
		meta: map[string][]byte{}}
}

// shards built once are kept in the store so that every replay process does not build them again
func (f *c32Factory) load(name string) ([]byte, bool) {
	if f.store == "" {
		return nil, false
	}
	b, err := os.ReadFile(filepath.Join(f.store, name))
	return b, err == nil
}

func (f *c32Factory) save(name string, data []byte) {
	if f.store == "" {
		return
	}
	tmp, err := os.CreateTemp(f.store, "w-*")
	if err != nil {
		return
	}
	tmp.Write(data)
	tmp.Close()
	os.Rename(tmp.Name(), filepath.Join(f.store, name))
}

// two real shards of repository (id, name) built by the real index builder (caller holds f.mu)
func (f *c32Factory) simpleShards(id uint32, name string) ([][]byte, error) {
	key := fmt.Sprintf("%d/%s", id, name)
	if b, ok := f.simple[key]; ok {
		return b, nil
	}
	if b0, ok := f.load(fmt.Sprintf("simple_%d_%s_0", id, name)); ok {
		if b1, ok := f.load(fmt.Sprintf("simple_%d_%s_1", id, name)); ok {
			f.simple[key] = [][]byte{b0, b1}
			return f.simple[key], nil
		}
	}
	dir, err := os.MkdirTemp(f.staging, "simple-*")
	if err != nil {
		return nil, err
	}
	opts := index.Options{
		IndexDir:              dir,
		RepositoryDescription: zoekt.Repository{ID: id, Name: name, RawConfig: map[string]string{"public": "1"}},
		DisableCTags:          true,
		Parallelism:           1,
		ShardMax:              100, // each document exceeds the limit -> one shard per document
	}
	opts.SetDefaults()
	b, err := index.NewBuilder(opts)
	if err != nil {
		return nil, err
	}
	for i := 0; i < 2; i++ {
		if err := b.AddFile(fmt.Sprintf("F%d", i), []byte(strings.Repeat(fmt.Sprintf("w%d%s ", i, name), 30))); err != nil {
			return nil, err
		}
	}
	if err := b.Finish(); err != nil {
		return nil, err
	}
	paths := opts.FindAllShards()
	if len(paths) != 2 {
		return nil, fmt.Errorf("builder produced %d shards for %s, want 2", len(paths), name)
	}
	var res [][]byte
	for k, p := range paths {
		if filepath.Base(p) != c32RealName(name, k) {
			return nil, fmt.Errorf("unexpected shard name %s", p)
		}
		data, err := os.ReadFile(p)
		if err != nil {
			return nil, err
		}
		res = append(res, data)
		f.save(fmt.Sprintf("simple_%d_%s_%d", id, name, k), data)
	}
	f.simple[key] = res
	return res, nil
}

// real compound shard holding the given members (all alive), made by the real index.Merge
func (f *c32Factory) compound(mem []c32Mem) (c32Cmp, error) {
	key := ""
	for _, m := range mem {
		key += fmt.Sprintf("%d_%s_", m.ID, m.Nm)
	}
	f.mu.Lock()
	defer f.mu.Unlock()
	if c, ok := f.cmp[key]; ok {
		return c, nil
	}
	if data, ok := f.load("cmp_" + key + "data"); ok {
		if base, ok := f.load("cmp_" + key + "name"); ok {
			f.cmp[key] = c32Cmp{key: key, base: string(base), data: data}
			return f.cmp[key], nil
		}
	}
	dir, err := os.MkdirTemp(f.staging, "cmp-*")
	if err != nil {
		return c32Cmp{}, err
	}
	var files []index.IndexFile
	for i, m := range mem {
		sh, err := f.simpleShards(m.ID, m.Nm)
		if err != nil {
			return c32Cmp{}, err
		}
		p := filepath.Join(dir, fmt.Sprintf("in%d.zoekt", i))
		if err := os.WriteFile(p, sh[0], 0o644); err != nil {
			return c32Cmp{}, err
		}
		fh, err := os.Open(p)
		if err != nil {
			return c32Cmp{}, err
		}
		defer fh.Close()
		inf, err := index.NewIndexFile(fh)
		if err != nil {
			return c32Cmp{}, err
		}
		defer inf.Close()
		files = append(files, inf)
	}
	tmpName, dstName, err := index.Merge(dir, files...)
	if err != nil {
		return c32Cmp{}, err
	}
	data, err := os.ReadFile(tmpName)
	if err != nil {
		return c32Cmp{}, err
	}
	c := c32Cmp{key: key, base: filepath.Base(dstName), data: data}
	if !strings.HasPrefix(c.base, "compound-") {
		return c32Cmp{}, fmt.Errorf("unexpected compound shard name %s", c.base)
	}
	f.save("cmp_"+key+"data", c.data)
	f.save("cmp_"+key+"name", []byte(c.base))
	f.cmp[key] = c
	return c, nil
}

func c32RealName(name string, k int) string {
	return fmt.Sprintf("%s_v%d.%05d.zoekt", name, index.IndexFormatVersion, k)
}

var c32SimpleRE = regexp.MustCompile(`^(.+)_v(\d+)\.(\d{5})\.zoekt$`)

func c32AbstractName(base string, ncmp *int) string {
	if strings.HasPrefix(base, "compound-") {
		*ncmp++
		if *ncmp == 1 {
			return "cmp"
		}
		return "cmp#" + strconv.Itoa(*ncmp)
	}
	if m := c32SimpleRE.FindStringSubmatch(base); m != nil {
		k, _ := strconv.Atoi(m[3])
		return m[1] + "." + strconv.Itoa(k)
	}
	return "?" + base
}

func c32Dir(root, l string) string {
	if l == "t" {
		return filepath.Join(root, ".trash")
	}
	return root
}

func c32Materialise(f *c32Factory, root string, files []c32File, tmp int) error {
	if err := os.MkdirAll(filepath.Join(root, ".trash"), 0o755); err != nil {
		return err
	}
	for _, x := range files {
		var path string
		if x.F == "cmp" {
			alive := make([]c32Mem, len(x.Mem))
			copy(alive, x.Mem)
			sort.Slice(alive, func(i, j int) bool { return alive[i].ID < alive[j].ID })
			c, err := f.compound(alive)
			if err != nil {
				return err
			}
			path = filepath.Join(c32Dir(root, x.L), c.base)
			if err := os.WriteFile(path, c.data, 0o644); err != nil {
				return err
			}
			tomb := false
			mkey := c.key
			for _, m := range alive {
				if m.Tb {
					tomb = true
					mkey += fmt.Sprintf("/%d", m.ID)
				}
			}
			f.mu.Lock()
			meta, cached := f.meta[mkey]
			f.mu.Unlock()
			if x.Mf && cached {
				// the sidecar the real SetTombstone wrote the first time this was asked for
				if err := os.WriteFile(path+".meta", meta, 0o644); err != nil {
					return err
				}
			} else if x.Mf {
				for _, m := range x.Mem {
					if m.Tb {
						if err := index.SetTombstone(path, m.ID); err != nil {
							return err
						}
					}
				}
				if !tomb {
					// a sidecar without tombstones: set and unset on the first member
					if err := index.SetTombstone(path, x.Mem[0].ID); err != nil {
						return err
					}
					if err := index.UnsetTombstone(path, x.Mem[0].ID); err != nil {
						return err
					}
				}
				meta, err := os.ReadFile(path + ".meta")
				if err != nil {
					return err
				}
				f.mu.Lock()
				f.meta[mkey] = meta
				f.mu.Unlock()
			}
			if !x.Mf && tomb {
				return fmt.Errorf("script asks for a tombstone without sidecar")
			}
		} else {
			i := strings.LastIndexByte(x.F, '.')
			if i < 0 || len(x.Mem) != 1 || x.Mem[0].Tb || x.Mf || x.Mem[0].Nm != x.F[:i] {
				return fmt.Errorf("unsupported simple shard in script: %+v", x)
			}
			k, err := strconv.Atoi(x.F[i+1:])
			if err != nil || k > 1 {
				return fmt.Errorf("bad shard number in %q", x.F)
			}
			f.mu.Lock()
			sh, err := f.simpleShards(x.Mem[0].ID, x.Mem[0].Nm)
			f.mu.Unlock()
			if err != nil {
				return err
			}
			path = filepath.Join(c32Dir(root, x.L), c32RealName(x.Mem[0].Nm, k))
			if err := os.WriteFile(path, sh[k], 0o644); err != nil {
				return err
			}
		}
		mt := c32Epoch.Add(time.Duration(x.Mt) * time.Hour)
		if err := os.Chtimes(path, mt, mt); err != nil {
			return err
		}
	}
	for i := 0; i < tmp; i++ {
		if err := os.WriteFile(filepath.Join(root, fmt.Sprintf("crashed%d_v16.00000.zoekt.%d.tmp", i, 1234+i)), []byte("partial"), 0o644); err != nil {
			return err
		}
	}
	return nil
}

// ---------------------------------------------------------------- projection

type c32Proj struct {
	Files []c32File
	Tmp   int
	Junk  []string
}

func c32Project(root string) c32Proj {
	p := c32Proj{Files: []c32File{}, Junk: []string{}}
	for _, l := range []string{"i", "t"} {
		dir := c32Dir(root, l)
		ents, err := os.ReadDir(dir)
		if err != nil {
			if l == "i" || !os.IsNotExist(err) {
				p.Junk = append(p.Junk, "readdir:"+l)
			}
			continue
		}
		names := map[string]bool{}
		for _, e := range ents {
			names[e.Name()] = true
		}
		ncmp := 0
		for _, e := range ents {
			n := e.Name()
			switch {
			case l == "i" && n == ".trash" && e.IsDir():
			case e.IsDir():
				p.Junk = append(p.Junk, l+":dir:"+n)
			case strings.HasSuffix(n, ".zoekt"):
				p.Files = append(p.Files, c32ProjectShard(dir, l, n, names[n+".meta"], &ncmp, &p))
			case strings.HasSuffix(n, ".zoekt.meta"):
				if !names[strings.TrimSuffix(n, ".meta")] {
					p.Junk = append(p.Junk, l+":orphan-meta:"+c32AbstractName(strings.TrimSuffix(n, ".meta"), new(int)))
				}
			case l == "i" && strings.HasSuffix(n, ".tmp"):
				p.Tmp++
			default:
				p.Junk = append(p.Junk, l+":file:"+n)
			}
		}
	}
	sort.Slice(p.Files, func(i, j int) bool {
		if p.Files[i].L != p.Files[j].L {
			return p.Files[i].L < p.Files[j].L
		}
		return p.Files[i].F < p.Files[j].F
	})
	sort.Strings(p.Junk)
	return p
}

func c32ProjectShard(dir, l, n string, hasMeta bool, ncmp *int, p *c32Proj) c32File {
	path := filepath.Join(dir, n)
	x := c32File{L: l, F: c32AbstractName(n, ncmp), Mf: hasMeta, Mem: []c32Mem{}, Mt: c32BadTime}
	if fi, err := os.Stat(path); err == nil {
		d := fi.ModTime().Sub(c32Epoch)
		if d%time.Hour == 0 {
			x.Mt = int(d / time.Hour)
		}
	}
	// metadata through index.ReadMetadata on the bytes of the file (it consults <path>.meta itself)
	data, err := os.ReadFile(path)
	var repos []*zoekt.Repository
	if err == nil {
		repos, _, err = index.ReadMetadata(&c32MemFile{name: path, data: data})
	}
	if err != nil {
		p.Junk = append(p.Junk, l+":unreadable:"+x.F)
		return x
	}
	for _, r := range repos {
		x.Mem = append(x.Mem, c32Mem{ID: r.ID, Nm: r.Name, Tb: r.Tombstone})
	}
	if hasMeta {
		// independent reading of the sidecar: it must say the same
		var raw []struct {
			ID        uint32
			Name      string
			Tombstone bool
		}
		blob, err := os.ReadFile(path + ".meta")
		if err == nil {
			if err2 := json.Unmarshal(blob, &raw); err2 != nil {
				var one struct {
					ID        uint32
					Name      string
					Tombstone bool
				}
				if err3 := json.Unmarshal(blob, &one); err3 != nil {
					err = err3
				} else {
					raw = append(raw[:0], one)
				}
			}
		}
		same := err == nil && len(raw) == len(x.Mem)
		for i := 0; same && i < len(raw); i++ {
			same = raw[i].ID == x.Mem[i].ID && raw[i].Name == x.Mem[i].Nm && raw[i].Tombstone == x.Mem[i].Tb
		}
		if !same {
			p.Junk = append(p.Junk, l+":meta-disagrees:"+x.F)
		}
	}
	sort.Slice(x.Mem, func(i, j int) bool { return x.Mem[i].ID < x.Mem[j].ID })
	return x
}

type c32MemFile struct {
	name string
	data []byte
}

func (m *c32MemFile) Read(off, sz uint32) ([]byte, error) {
	if uint64(off)+uint64(sz) > uint64(len(m.data)) {
		return nil, fmt.Errorf("out of bounds: %d+%d > %d", off, sz, len(m.data))
	}
	return m.data[off : off+sz], nil
}
func (m *c32MemFile) Size() (uint32, error) { return uint32(len(m.data)), nil }
func (m *c32MemFile) Close()                {}
func (m *c32MemFile) Name() string          { return m.name }

// ---------------------------------------------------------------- snapshot of a directory

type c32Snap struct {
	rel   string
	data  []byte
	mtime time.Time
}

func c32Snapshot(root string) ([]c32Snap, error) {
	var res []c32Snap
	for _, sub := range []string{"", ".trash"} {
		ents, err := os.ReadDir(filepath.Join(root, sub))
		if err != nil {
			return nil, err
		}
		for _, e := range ents {
			if e.IsDir() {
				continue
			}
			rel := filepath.Join(sub, e.Name())
			data, err := os.ReadFile(filepath.Join(root, rel))
			if err != nil {
				return nil, err
			}
			fi, err := e.Info()
			if err != nil {
				return nil, err
			}
			res = append(res, c32Snap{rel, data, fi.ModTime()})
		}
	}
	return res, nil
}

func c32Wipe(root string) error {
	trash := filepath.Join(root, ".trash")
	if err := os.MkdirAll(trash, 0o755); err != nil {
		return err
	}
	for _, dir := range []string{trash, root} {
		ents, err := os.ReadDir(dir)
		if err != nil {
			return err
		}
		for _, e := range ents {
			if dir == root && e.Name() == ".trash" {
				continue
			}
			if err := os.RemoveAll(filepath.Join(dir, e.Name())); err != nil {
				return err
			}
		}
	}
	return nil
}

func c32Restore(root string, snap []c32Snap) error {
	if err := c32Wipe(root); err != nil {
		return err
	}
	for _, s := range snap {
		p := filepath.Join(root, s.rel)
		if err := os.WriteFile(p, s.data, 0o644); err != nil {
			return err
		}
		if err := os.Chtimes(p, s.mtime, s.mtime); err != nil {
			return err
		}
	}
	return nil
}

// ---------------------------------------------------------------- replay

func c32U32(a []uint32) []uint32 {
	if a == nil {
		return []uint32{}
	}
	return a
}

func c32Event(ev string, k, j int, a []uint32, m bool, now int, p c32Proj) verifkit.M {
	return verifkit.M{"ev": ev, "k": k, "j": j, "a": c32U32(a), "m": m, "now": now,
		"dir": p.Files, "tmp": p.Tmp, "junk": p.Junk}
}

// one script; the events of a script are contiguous in the trace
func c32Run(f *c32Factory, root string, k int, sc c32Script) ([]verifkit.M, error) {
	if err := c32Wipe(root); err != nil {
		return nil, err
	}
	if err := c32Materialise(f, root, sc.Init, sc.Tmp); err != nil {
		return nil, err
	}
	evs := []verifkit.M{c32Event("init", k, 0, nil, sc.M, 0, c32Project(root))}
	cleanup(root, sc.A, c32Epoch, sc.M)
	evs = append(evs, c32Event("cleanup", k, 0, sc.A, sc.M, 0, c32Project(root)))
	var snap []c32Snap
	if len(sc.Sec) > 1 {
		var err error
		if snap, err = c32Snapshot(root); err != nil {
			return nil, err
		}
		evs = append(evs, verifkit.M{"ev": "save", "k": k})
	}
	for j, s := range sc.Sec {
		if j > 0 {
			if err := c32Restore(root, snap); err != nil {
				return nil, err
			}
			evs = append(evs, verifkit.M{"ev": "load", "k": k})
		}
		cleanup(root, s.A2, c32Epoch.Add(time.Duration(s.Adv)*time.Hour), sc.M)
		evs = append(evs, c32Event("cleanup", k, j+1, s.A2, sc.M, s.Adv, c32Project(root)))
	}
	return evs, nil
}

// builds every shard the scripts can ask for into VERIF_C32_STORE (run once before the replay
// processes start, so that they only load)
func TestVerif_C32_Factory(t *testing.T) {
	store := os.Getenv("VERIF_C32_STORE")
	if store == "" {
		t.Skip("VERIF_C32_STORE not set")
	}
	log.SetOutput(io.Discard)
	if err := os.MkdirAll(store, 0o755); err != nil {
		t.Fatal(err)
	}
	staging, err := os.MkdirTemp(store, "staging-*")
	if err != nil {
		t.Fatal(err)
	}
	defer os.RemoveAll(staging)
	f := c32NewFactory(staging, store)
	one := [][]c32Mem{{}, {{ID: 1, Nm: "r1"}}, {{ID: 1, Nm: "r1x"}}}
	two := [][]c32Mem{{}, {{ID: 2, Nm: "a2"}}, {{ID: 2, Nm: "a2x"}}}
	for _, a := range one {
		for _, b := range two {
			mem := append(append([]c32Mem{}, a...), b...)
			if len(mem) == 0 {
				continue
			}
			if _, err := f.compound(mem); err != nil {
				t.Fatal(err)
			}
		}
	}
}

func TestVerif_C32_Replay(t *testing.T) {
	scripts := verifkit.ReadScripts(t)
	tr := verifkit.Open(t)
	defer tr.Close()
	log.SetOutput(io.Discard)
	infoLog.SetOutput(io.Discard)
	errorLog.SetOutput(io.Discard)
	debugLog.SetOutput(io.Discard)

	work := os.Getenv("VERIF_WORK")
	if d := os.Getenv("VERIF_C32_SCRATCH"); d != "" {
		work = d
	}
	if work == "" {
		work = t.TempDir()
	}
	base, err := os.MkdirTemp(work, "c32-*")
	if err != nil {
		t.Fatal(err)
	}
	defer os.RemoveAll(base)
	staging := filepath.Join(base, "staging")
	if err := os.MkdirAll(staging, 0o755); err != nil {
		t.Fatal(err)
	}
	store := os.Getenv("VERIF_C32_STORE")
	if store != "" {
		if err := os.MkdirAll(store, 0o755); err != nil {
			t.Fatal(err)
		}
	}
	f := c32NewFactory(staging, store)

	workers := verifkit.EnvInt("VERIF_C32_WORKERS", 1)
	var emitMu sync.Mutex
	var wg sync.WaitGroup
	var firstErr error
	next := 0
	var nextMu sync.Mutex
	for w := 0; w < workers; w++ {
		wg.Add(1)
		go func(w int) {
			defer wg.Done()
			root := filepath.Join(base, fmt.Sprintf("w%d", w), "index")
			for {
				nextMu.Lock()
				k := next
				next++
				stop := firstErr != nil
				nextMu.Unlock()
				if k >= len(scripts) || stop {
					return
				}
				var sc c32Script
				dec := json.NewDecoder(bytes.NewReader(scripts[k]))
				err := dec.Decode(&sc)
				var evs []verifkit.M
				if err == nil {
					evs, err = c32Run(f, root, k, sc)
				}
				if err != nil {
					nextMu.Lock()
					if firstErr == nil {
						firstErr = fmt.Errorf("script %d: %w", k, err)
					}
					nextMu.Unlock()
					return
				}
				emitMu.Lock()
				for _, e := range evs {
					tr.Emit(e)
				}
				emitMu.Unlock()
			}
		}(w)
	}
	wg.Wait()
	if firstErr != nil {
		t.Fatal(firstErr)
	}
}
