//go:build verif

package archive

import (
	"archive/tar"
	"archive/zip"
	"bytes"
	"compress/gzip"
	"encoding/json"
	"fmt"
	"math/rand"
	"os"
	"path/filepath"
	"strings"
	"testing"
	"time"

	"github.com/sourcegraph/zoekt/index"
	"github.com/sourcegraph/zoekt/internal/verifkit"
	"github.com/sourcegraph/zoekt/internal/verifkit/ingest"
)

// C15 (archive part): a scenario is a member list (regular files with content descriptors,
// directories, symlinks, other kinds), a format (tar, tgz, zip) and a Strip count.  The
// archive is written with the standard library writers, the real Index indexes it, and the
// shards are projected to abstract documents.  Trace_DirArchive.tla decides.

type c15Member struct {
	Name []int     `json:"name"`
	Kind string    `json:"kind"` // reg | dir | symlink | other
	CD   ingest.CD `json:"cd"`
}

type c15ArchScenario struct {
	Mode    string      `json:"mode"`
	Members []c15Member `json:"members"`
	Format  string      `json:"format"`
	Strip   int         `json:"strip"`
}

type c15ArchScript struct {
	Sc      c15ArchScenario `json:"sc"`
	SizeMax int             `json:"sizemax"`
}

var c15Time = time.Date(2024, 5, 6, 7, 8, 9, 0, time.UTC)

func c15Tar(members []c15Member) ([]byte, error) {
	var buf bytes.Buffer
	tw := tar.NewWriter(&buf)
	for _, m := range members {
		name := ingest.Str(m.Name)
		h := &tar.Header{Name: name, Mode: 0o644, ModTime: c15Time}
		var body []byte
		switch m.Kind {
		case "reg":
			body = m.CD.Bytes()
			h.Typeflag = tar.TypeReg
			h.Size = int64(len(body))
		case "dir":
			h.Typeflag = tar.TypeDir
			h.Name = name + "/"
			h.Mode = 0o755
		case "symlink":
			h.Typeflag = tar.TypeSymlink
			h.Linkname = ingest.Str(m.CD.Text)
		default:
			h.Typeflag = tar.TypeLink
			h.Linkname = "r/a.txt"
		}
		if err := tw.WriteHeader(h); err != nil {
			return nil, err
		}
		if len(body) > 0 {
			if _, err := tw.Write(body); err != nil {
				return nil, err
			}
		}
	}
	if err := tw.Close(); err != nil {
		return nil, err
	}
	return buf.Bytes(), nil
}

func c15Zip(members []c15Member, rng *rand.Rand) ([]byte, error) {
	var buf bytes.Buffer
	zw := zip.NewWriter(&buf)
	for i, m := range members {
		name := ingest.Str(m.Name)
		h := &zip.FileHeader{Name: name, Method: zip.Deflate, Modified: c15Time}
		if (rng != nil && rng.Intn(2) == 0) || (rng == nil && i%2 == 1) {
			h.Method = zip.Store
		}
		var body []byte
		switch m.Kind {
		case "reg":
			body = m.CD.Bytes()
			h.SetMode(0o644)
		case "dir":
			h.Name = name + "/"
			h.SetMode(os.ModeDir | 0o755)
		case "symlink":
			body = []byte(ingest.Str(m.CD.Text))
			h.SetMode(os.ModeSymlink | 0o777)
		default:
			h.SetMode(os.ModeNamedPipe | 0o644)
		}
		w, err := zw.CreateHeader(h)
		if err != nil {
			return nil, err
		}
		if len(body) > 0 {
			if _, err := w.Write(body); err != nil {
				return nil, err
			}
		}
	}
	if err := zw.Close(); err != nil {
		return nil, err
	}
	return buf.Bytes(), nil
}

func c15Build(format string, members []c15Member, rng *rand.Rand) ([]byte, error) {
	switch format {
	case "tar":
		return c15Tar(members)
	case "tgz":
		raw, err := c15Tar(members)
		if err != nil {
			return nil, err
		}
		var buf bytes.Buffer
		gw := gzip.NewWriter(&buf)
		if _, err := gw.Write(raw); err != nil {
			return nil, err
		}
		if err := gw.Close(); err != nil {
			return nil, err
		}
		return buf.Bytes(), nil
	case "zip":
		return c15Zip(members, rng)
	}
	return nil, fmt.Errorf("unknown format %q", format)
}

// cutAt < 0: the archive is complete; otherwise it is truncated to cutAt bytes.
func c15RunArchive(t testing.TB, tr *verifkit.Trace, base string, n int, sizeMax int, sc c15ArchScenario, cutAt int, rng *rand.Rand) {
	ingest.Progress("c15_progress_archive.json", verifkit.M{"n": n, "sc": sc, "cut": cutAt})
	scdir := filepath.Join(base, fmt.Sprintf("s%d", n))
	idx := filepath.Join(scdir, "idx")
	if err := os.MkdirAll(idx, 0o755); err != nil {
		t.Fatal(err)
	}
	table := ingest.Table{}
	for i := range sc.Members {
		if sc.Members[i].CD.Text == nil {
			sc.Members[i].CD.Text = []int{}
		}
		if sc.Members[i].Kind == "reg" {
			table.Add(sc.Members[i].CD)
		}
	}
	if sc.Members == nil {
		sc.Members = []c15Member{}
	}
	data, err := c15Build(sc.Format, sc.Members, rng)
	if err != nil {
		t.Fatalf("scenario %d: writing the archive: %v", n, err)
	}
	cut := false
	if cutAt >= 0 && cutAt < len(data) {
		data = data[:cutAt]
		cut = true
	}
	ext := map[string]string{"tar": ".tar", "tgz": ".tar.gz", "zip": ".zip"}[sc.Format]
	apath := filepath.Join(scdir, "a"+ext)
	if err := os.WriteFile(apath, data, 0o644); err != nil {
		t.Fatal(err)
	}
	opts := Options{Archive: apath, Name: "repo", Branch: "HEAD", Strip: sc.Strip}
	bopts := index.Options{IndexDir: idx, SizeMax: sizeMax, DisableCTags: true, ShardMax: 1 << 20, Parallelism: 1}
	out := ingest.Run(idx, table, func() error { return Index(opts, bopts) })
	tr.Emit(verifkit.M{"ev": "archive", "sizemax": sizeMax, "format": sc.Format, "strip": sc.Strip, "cut": cut,
		"bytes": len(data), "members": sc.Members, "out": out})
	os.RemoveAll(scdir)
}

func TestVerif_C15_ArchiveReplay(t *testing.T) {
	scripts := verifkit.ReadScripts(t)
	tr := verifkit.Open(t)
	defer tr.Close()
	base := t.TempDir()
	for n, raw := range scripts {
		var sc c15ArchScript
		if err := json.Unmarshal(raw, &sc); err != nil {
			t.Fatal(err)
		}
		c15RunArchive(t, tr, base, n, sc.SizeMax, sc.Sc, -1, nil)
	}
}

var c15ArchComps = []string{"a", "b", "src", "lib", "x.go", "y.txt", "z.md", "Makefile", "é", "repo-1a2b3c", "doc", "ab"}

func TestVerif_C15_ArchiveRandom(t *testing.T) {
	tr := verifkit.Open(t)
	defer tr.Close()
	base := t.TempDir()
	n := verifkit.EnvInt("C15_RANDOM", verifkit.Pick(300, 5000))
	for i := 0; i < n; i++ {
		rng := verifkit.Rng(int64(5000 + i))
		sizeMax := []int{48, 64, 100}[rng.Intn(3)]
		sc := c15ArchScenario{Mode: "archive", Format: []string{"tar", "tgz", "zip"}[rng.Intn(3)], Strip: rng.Intn(4)}
		nm := rng.Intn(21)
		if rng.Intn(10) == 0 {
			nm = 0
		}
		onlyDirs := rng.Intn(12) == 0
		prefix := c15ArchComps[rng.Intn(len(c15ArchComps))]
		cid := 0
		var shared []ingest.CD
		for k := 0; k < nm; k++ {
			depth := 1 + rng.Intn(4)
			parts := []string{}
			if rng.Intn(5) != 0 {
				parts = append(parts, prefix)
			}
			for len(parts) < depth {
				parts = append(parts, c15ArchComps[rng.Intn(len(c15ArchComps))])
			}
			if rng.Intn(40) == 0 { // a long name: PAX / GNU long name records in tar
				parts = append(parts, strings.Repeat("long", 30)+".go")
			}
			name := strings.Join(parts, "/")
			if len(sc.Members) > 0 && rng.Intn(8) == 0 { // duplicate name
				name = ingest.Str(sc.Members[rng.Intn(len(sc.Members))].Name)
			}
			m := c15Member{Name: verifkit.Runes(name), CD: ingest.Syn(0, 0, false)}
			switch x := rng.Intn(20); {
			case x < 4 || onlyDirs:
				m.Kind = "dir"
			case x < 6:
				m.Kind = "symlink"
				m.CD = ingest.LitText([]string{"x.go", "../y", "/etc/passwd"}[rng.Intn(3)])
			case x < 7:
				m.Kind = "other"
			default:
				m.Kind = "reg"
				if len(shared) > 0 && rng.Intn(5) == 0 {
					m.CD = shared[rng.Intn(len(shared))]
					break
				}
				cid++
				switch y := rng.Intn(16); {
				case y == 0:
					m.CD = ingest.Syn(0, 0, false)
				case y == 1:
					m.CD = ingest.Syn(cid, 1+rng.Intn(2), false)
				case y == 2:
					m.CD = ingest.Syn(cid, sizeMax+1+rng.Intn(600), false)
				case y == 3:
					m.CD = ingest.Syn(cid, sizeMax, false)
				case y == 4:
					m.CD = ingest.Syn(cid, 6+rng.Intn(sizeMax-6), true)
				default:
					m.CD = ingest.Syn(cid, 3+rng.Intn(sizeMax-3), false)
				}
				shared = append(shared, m.CD)
			}
			sc.Members = append(sc.Members, m)
		}
		cutAt := -1
		if rng.Intn(6) == 0 {
			// truncated archive: any outcome but a crash
			cutAt = rng.Intn(1 + 700*(1+len(sc.Members)))
			if rng.Intn(3) == 0 {
				cutAt = rng.Intn(600)
			}
			// a regular member first: otherwise a cut after leading directory entries is the
			// no-regular-members case in disguise
			if len(sc.Members) > 0 && sc.Members[0].Kind != "reg" {
				cid++
				first := c15Member{Name: verifkit.Runes(prefix + "/first.txt"), Kind: "reg", CD: ingest.Syn(cid, 10, false)}
				sc.Members = append([]c15Member{first}, sc.Members...)
			}
		}
		c15RunArchive(t, tr, base, i, sizeMax, sc, cutAt, rng)
	}
}
