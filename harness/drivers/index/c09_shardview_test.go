//go:build verif

package index_test

// C09: a written shard reads back every document and all metadata.
//
// The driver builds shards from abstract build descriptions (TLC scripts from
// spec/sys/ShardView.tla, corner-case families, seeded random) with the real ShardBuilder,
// Builder and Merge, reads them back ONLY through the public read path (index.NewSearcher:
// List, Search(Const true, Whole), symbol searches; index.ReadMetadata) and records
// build / readback / symsub / tri events for spec/trace/Trace_ShardView.tla.
// It decides nothing.

import (
	"bytes"
	"context"
	"encoding/json"
	"fmt"
	"hash/crc64"
	"io"
	"log"
	"math/rand"
	"os"
	"path/filepath"
	"regexp"
	"regexp/syntax"
	"runtime"
	"sort"
	"strings"
	"sync"
	"testing"
	"time"
	"unicode/utf8"

	"github.com/sourcegraph/zoekt"
	"github.com/sourcegraph/zoekt/index"
	"github.com/sourcegraph/zoekt/internal/verifkit"
	"github.com/sourcegraph/zoekt/languages"
	"github.com/sourcegraph/zoekt/query"
)

type c09M = verifkit.M

var c09Crc = crc64.MakeTable(crc64.ISO)

func c09Sum(b []byte) string { return fmt.Sprintf("%016x", crc64.Checksum(b, c09Crc)) }

// the driver's own rendering of the explanation texts; the specification has its own copy
// (ShardViewOps!Marker) and checks them to be equal before it uses the checksums.
var c09Markers = []struct{ Reason, Text string }{
	{"large", "NOT-INDEXED: exceeds the maximum size limit"},
	{"small", "NOT-INDEXED: contains too few trigrams"},
	{"binary", "NOT-INDEXED: contains binary content"},
	{"trigrams", "NOT-INDEXED: contains too many trigrams"},
}

const c09OpaqueLimit = 5000 // contents longer than this are logged as length + checksum only

type c09Sym struct {
	S, E                int // rune offsets
	Kind, Parent, PKind string
}

type c09Doc struct {
	Name     string
	Content  []byte
	Branches []string
	Lang     string
	SubRepo  string
	Syms     []c09Sym
}

type c09Pat struct {
	Neg  bool   `json:"neg"`
	Kind string `json:"kind"` // exact | suffix | deep
	Arg  string `json:"-"`
}

func (p c09Pat) glob() string {
	g := p.Arg
	switch p.Kind {
	case "suffix":
		g = "*" + p.Arg
	case "deep":
		g = "**/*" + p.Arg
	}
	if p.Neg {
		g = "!" + g
	}
	return g
}

type c09Repo struct {
	Via  string // shard | builder
	Desc zoekt.Repository
	Docs []c09Doc
}

type c09TriQ struct {
	Pat      string
	FileName bool
}

type c09Build struct {
	Family     string
	Script     int
	Path       string // shard | builder | merge
	SizeMax    int
	TrigramMax int
	ShardMax   int
	Large      []c09Pat
	Repos      []*c09Repo
	Tri        []c09TriQ
	SymSub     int // number of symbol-substring probes
}

func c09Kind(b []byte) string {
	if len(b) > c09OpaqueLimit {
		return "opaque"
	}
	if utf8.Valid(b) {
		return "text"
	}
	return "bytes"
}

func c09Ints(b []byte) []int {
	r := make([]int, len(b))
	for i, x := range b {
		r[i] = int(x)
	}
	return r
}

// content in the representation of its kind
func c09Content(b []byte) (kind string, content []int) {
	kind = c09Kind(b)
	switch kind {
	case "text":
		content = verifkit.Runes(string(b))
	case "bytes":
		content = c09Ints(b)
	default:
		content = []int{}
	}
	return
}

func c09RuneToByte(b []byte, r int) int {
	off := 0
	for ; r > 0 && off < len(b); r-- {
		_, sz := utf8.DecodeRune(b[off:])
		off += sz
	}
	return off
}

func c09KV(m map[string]string) []c09M {
	keys := make([]string, 0, len(m))
	for k := range m {
		keys = append(keys, k)
	}
	sort.Strings(keys)
	res := []c09M{}
	for _, k := range keys {
		res = append(res, c09M{"k": k, "v": m[k]})
	}
	return res
}

func c09Branches(bs []zoekt.RepositoryBranch) []c09M {
	res := []c09M{}
	for _, b := range bs {
		res = append(res, c09M{"n": b.Name, "v": b.Version})
	}
	return res
}

// c09Desc renders a repository description; the same function renders what was given to the
// builder and what List / ReadMetadata returned.
func c09Desc(r *zoekt.Repository) c09M {
	paths := make([]string, 0, len(r.SubRepoMap))
	for k := range r.SubRepoMap {
		paths = append(paths, k)
	}
	sort.Strings(paths)
	subs := []c09M{}
	for _, p := range paths {
		s := r.SubRepoMap[p]
		if s == nil {
			subs = append(subs, c09M{"path": p, "name": "<nil>", "url": "", "branches": []c09M{}})
			continue
		}
		subs = append(subs, c09M{"path": p, "name": s.Name, "url": s.URL, "branches": c09Branches(s.Branches)})
	}
	ft := make([]string, 0, len(r.FileTombstones))
	for k := range r.FileTombstones {
		ft = append(ft, k)
	}
	sort.Strings(ft)
	date := 0
	if !r.LatestCommitDate.IsZero() {
		date = int(r.LatestCommitDate.Unix())
	}
	return c09M{
		"name": r.Name, "id": r.ID, "tenant": r.TenantID, "url": r.URL, "source": r.Source,
		"branches": c09Branches(r.Branches), "subrepos": subs, "commitT": r.CommitURLTemplate,
		"fileT": r.FileURLTemplate, "lineT": r.LineFragmentTemplate, "rawconfig": c09KV(r.RawConfig),
		"rank": int(r.Rank), "indexOptions": r.IndexOptions, "hasSymbols": r.HasSymbols,
		"metadata": c09KV(r.Metadata), "date": date, "ftombs": ft, "tomb": r.Tombstone,
	}
}

func c09First(xs []string) string {
	if len(xs) > 0 {
		return xs[0]
	}
	return ""
}

func (b *c09Build) optsEvent(hash string) c09M {
	pats := []c09M{}
	for _, p := range b.Large {
		pats = append(pats, c09M{"neg": p.Neg, "kind": p.Kind, "arg": verifkit.Runes(p.Arg)})
	}
	return c09M{"sizeMax": b.SizeMax, "trigramMax": b.TrigramMax, "large": pats, "hash": hash}
}

func (b *c09Build) indexOptions(dir string, r *c09Repo) index.Options {
	o := index.Options{
		IndexDir: dir, SizeMax: b.SizeMax, TrigramMax: b.TrigramMax, ShardMax: b.ShardMax, Parallelism: 1,
		RepositoryDescription: r.Desc, SubRepositories: r.Desc.SubRepoMap, DisableCTags: true,
	}
	for _, p := range b.Large {
		o.LargeFiles = append(o.LargeFiles, p.glob())
	}
	return o
}

func c09DocEvent(d *c09Doc) c09M {
	kind, content := c09Content(d.Content)
	syms := []c09M{}
	for _, s := range d.Syms {
		syms = append(syms, c09M{"s": s.S, "e": s.E, "bs": c09RuneToByte(d.Content, s.S), "be": c09RuneToByte(d.Content, s.E),
			"kind": s.Kind, "parent": s.Parent, "pkind": s.PKind})
	}
	ascii := true
	for _, c := range d.Content {
		if c >= utf8.RuneSelf {
			ascii = false
		}
	}
	br := d.Branches
	if br == nil {
		br = []string{}
	}
	return c09M{
		"kind": kind, "name": verifkit.Runes(d.Name), "content": content, "size": len(d.Content),
		"nul": bytes.IndexByte(d.Content, 0) >= 0, "nl": bytes.Count(d.Content, []byte{'\n'}), "ascii": ascii,
		"crc": c09Sum(d.Content), "branches": br, "lang": d.Lang,
		"enryFull": c09First(languages.GetLanguagesFromContent(d.Name, d.Content)),
		"enryName": c09First(languages.GetLanguagesFromContent(d.Name, nil)),
		"subrepo":  d.SubRepo, "syms": syms,
	}
}

func (d *c09Doc) indexDoc() index.Document {
	doc := index.Document{Name: d.Name, Content: append([]byte(nil), d.Content...), Branches: d.Branches,
		Language: d.Lang, SubRepositoryPath: d.SubRepo}
	for _, s := range d.Syms {
		bs, be := c09RuneToByte(d.Content, s.S), c09RuneToByte(d.Content, s.E)
		doc.Symbols = append(doc.Symbols, index.DocumentSection{Start: uint32(bs), End: uint32(be)})
		doc.SymbolsMetaData = append(doc.SymbolsMetaData, &zoekt.Symbol{Sym: string(d.Content[bs:be]), Kind: s.Kind, Parent: s.Parent, ParentKind: s.PKind})
	}
	return doc
}

// materialise one repository as simple shard(s) in dir
func (b *c09Build) simple(dir string, n int, r *c09Repo) ([]string, error) {
	if err := os.MkdirAll(dir, 0o755); err != nil {
		return nil, err
	}
	if r.Via == "shard" {
		desc := r.Desc
		sb, err := index.NewShardBuilder(&desc)
		if err != nil {
			return nil, fmt.Errorf("NewShardBuilder: %w", err)
		}
		for i := range r.Docs {
			if err := sb.Add(r.Docs[i].indexDoc()); err != nil {
				return nil, fmt.Errorf("Add(%q): %w", r.Docs[i].Name, err)
			}
		}
		p := filepath.Join(dir, fmt.Sprintf("s%03d_v16.00000.zoekt", n))
		f, err := os.Create(p)
		if err != nil {
			return nil, err
		}
		defer f.Close()
		if err := sb.Write(f); err != nil {
			return nil, fmt.Errorf("Write: %w", err)
		}
		return []string{p}, nil
	}
	sub := filepath.Join(dir, fmt.Sprintf("b%03d", n))
	if err := os.MkdirAll(sub, 0o755); err != nil {
		return nil, err
	}
	opts := b.indexOptions(sub, r)
	bld, err := index.NewBuilder(opts)
	if err != nil {
		return nil, fmt.Errorf("NewBuilder: %w", err)
	}
	for i := range r.Docs {
		if err := bld.Add(r.Docs[i].indexDoc()); err != nil {
			bld.Finish()
			return nil, fmt.Errorf("Builder.Add(%q): %w", r.Docs[i].Name, err)
		}
	}
	if err := bld.Finish(); err != nil {
		return nil, fmt.Errorf("Finish: %w", err)
	}
	paths, _ := filepath.Glob(filepath.Join(sub, "*.zoekt"))
	sort.Strings(paths)
	return paths, nil
}

func (b *c09Build) materialise(dir string) (paths []string, stage string, err error) {
	if b.Path != "merge" {
		paths, err = b.simple(dir, 0, b.Repos[0])
		return paths, "build", err
	}
	var files []index.IndexFile
	defer func() {
		for _, f := range files {
			f.Close()
		}
	}()
	for n, r := range b.Repos {
		ps, err := b.simple(filepath.Join(dir, "parts"), n, r)
		if err != nil {
			return nil, "build", err
		}
		for _, p := range ps {
			f, err := os.Open(p)
			if err != nil {
				return nil, "build", err
			}
			inf, err := index.NewIndexFile(f)
			if err != nil {
				return nil, "build", err
			}
			files = append(files, inf)
		}
	}
	tmp, dst, err := index.Merge(dir, files...)
	if err != nil {
		return nil, "merge", err
	}
	if err := os.Rename(tmp, dst); err != nil {
		return nil, "merge", err
	}
	return []string{dst}, "merge", nil
}

type c09File struct {
	repo, name, sum string
	branches        []string
	ev              c09M
}

func c09Key(repo, name string, branches []string, sum string) string {
	return repo + "\x00" + name + "\x00" + strings.Join(branches, "\x01") + "\x00" + sum
}

var c09AllRe = func() *syntax.Regexp {
	re, err := syntax.Parse("(?s:.*)", syntax.Perl)
	if err != nil {
		panic(err)
	}
	return re
}()

func c09Offsets(content []byte, bs, be int) c09M {
	s, e := -1, -1
	if bs <= len(content) && be <= len(content) && bs <= be && (bs == len(content) || utf8.RuneStart(content[bs])) && (be == len(content) || utf8.RuneStart(content[be])) {
		s = utf8.RuneCount(content[:bs])
		e = s + utf8.RuneCount(content[bs:be])
	}
	return c09M{"s": s, "e": e, "bs": bs, "be": be}
}

// readback of one shard file through the public read path
func c09Read(path string, shard int, out *c09M, files *[]*c09File, searchers *[]zoekt.Searcher) (stage string, err error) {
	f, err := os.Open(path)
	if err != nil {
		return "open", err
	}
	inf, err := index.NewIndexFile(f)
	if err != nil {
		return "open", err
	}
	repos, md, err := index.ReadMetadata(inf)
	if err != nil {
		inf.Close()
		return "readmetadata", err
	}
	for _, r := range repos {
		(*out)["repos"] = append((*out)["repos"].([]c09M), c09M{"src": "meta", "shard": shard, "desc": c09Desc(r),
			"docs": 0, "cbytes": 0, "nl": 0, "nldef": 0, "nlother": 0})
	}
	langs := make([]string, 0, len(md.LanguageMap))
	for k := range md.LanguageMap {
		langs = append(langs, k)
	}
	sort.Strings(langs)
	(*out)["meta"] = append((*out)["meta"].([]c09M), c09M{"shard": shard, "plainASCII": md.PlainASCII, "langs": langs,
		"formatVersion": md.IndexFormatVersion, "featureVersion": md.IndexFeatureVersion, "idlen": len(md.ID)})

	s, err := index.NewSearcher(inf)
	if err != nil {
		inf.Close()
		return "newsearcher", err
	}
	*searchers = append(*searchers, s)
	ctx := context.Background()
	rl, err := s.List(ctx, &query.Const{Value: true}, nil)
	if err != nil {
		return "list", err
	}
	for _, e := range rl.Repos {
		(*out)["repos"] = append((*out)["repos"].([]c09M), c09M{"src": "list", "shard": shard, "desc": c09Desc(&e.Repository),
			"docs": e.Stats.Documents, "cbytes": int(e.Stats.ContentBytes), "nl": int(e.Stats.NewLinesCount),
			"nldef": int(e.Stats.DefaultBranchNewLinesCount), "nlother": int(e.Stats.OtherBranchesNewLinesCount)})
	}
	sr, err := s.Search(ctx, &query.Const{Value: true}, &zoekt.SearchOptions{Whole: true})
	if err != nil {
		return "search", err
	}
	first := len(*files)
	for i := range sr.Files {
		fm := &sr.Files[i]
		kind, content := c09Content(fm.Content)
		br := fm.Branches
		if br == nil {
			br = []string{}
		}
		sum := fmt.Sprintf("%x", fm.Checksum)
		ev := c09M{"repo": fm.Repository, "repoid": fm.RepositoryID, "name": verifkit.Runes(fm.FileName), "kind": kind, "content": content,
			"clen": len(fm.Content), "chash": c09Sum(fm.Content), "sum": sum, "branches": br, "lang": fm.Language,
			"subname": fm.SubRepositoryName, "subpath": fm.SubRepositoryPath, "version": fm.Version,
			"syms": []c09M{}, "symerr": "", "nameok": utf8.ValidString(fm.FileName)}
		*files = append(*files, &c09File{repo: fm.Repository, name: fm.FileName, sum: sum, branches: br, ev: ev})
	}
	// symbols: every section, with kind / parent, from a symbol search that selects whole sections
	ss, err := s.Search(ctx, &query.Symbol{Expr: &query.Regexp{Regexp: c09AllRe, Content: true, CaseSensitive: true}},
		&zoekt.SearchOptions{ChunkMatches: true, Whole: true})
	if err != nil {
		return "symbolsearch", err
	}
	used := map[int]bool{}
	for i := range ss.Files {
		fm := &ss.Files[i]
		k := c09Key(fm.Repository, fm.FileName, fm.Branches, fmt.Sprintf("%x", fm.Checksum))
		target := -1
		for j := first; j < len(*files); j++ {
			cf := (*files)[j]
			if !used[j] && c09Key(cf.repo, cf.name, cf.branches, cf.sum) == k {
				target = j
				break
			}
		}
		if target < 0 {
			return "symbolsearch", fmt.Errorf("symbol search returned %q which Const(true) did not", fm.FileName)
		}
		used[target] = true
		type rg struct {
			bs, be int
			si     *zoekt.Symbol
		}
		var rs []rg
		symerr := ""
		for _, cm := range fm.ChunkMatches {
			if cm.FileName {
				continue
			}
			if len(cm.SymbolInfo) != len(cm.Ranges) {
				symerr = fmt.Sprintf("chunk with %d ranges and %d symbol infos", len(cm.Ranges), len(cm.SymbolInfo))
			}
			for x, r := range cm.Ranges {
				var si *zoekt.Symbol
				if x < len(cm.SymbolInfo) {
					si = cm.SymbolInfo[x]
				}
				rs = append(rs, rg{int(r.Start.ByteOffset), int(r.End.ByteOffset), si})
			}
		}
		sort.SliceStable(rs, func(a, b int) bool { return rs[a].bs < rs[b].bs })
		syms := []c09M{}
		for _, r := range rs {
			m := c09Offsets(fm.Content, r.bs, r.be)
			if r.si == nil {
				symerr = "range without symbol info"
				m["kind"], m["parent"], m["pkind"] = "", "", ""
			} else {
				m["kind"], m["parent"], m["pkind"] = r.si.Kind, r.si.Parent, r.si.ParentKind
				if r.bs <= r.be && r.be <= len(fm.Content) && r.si.Sym != string(fm.Content[r.bs:r.be]) {
					symerr = fmt.Sprintf("Sym %q is not the section text", r.si.Sym)
				}
			}
			syms = append(syms, m)
		}
		(*files)[target].ev["syms"] = syms
		(*files)[target].ev["symerr"] = symerr
	}
	return "", nil
}

var c09FrameRe = regexp.MustCompile(`^(github\.com/sourcegraph/zoekt/index\.[^\s(]*(?:\([^)]*\))?[^\s(]*)\(`)

// c09Guard runs f (a call into the code under test).  A panic is returned as a value.  If f has
// not returned after a long time AND its goroutine is still running index code, the name of that
// function is returned as hang and the goroutine is abandoned (a search that does not end is an
// observation, a slow machine is not: without a running index frame the guard keeps waiting).
func c09Guard(f func()) (panicked any, hang string) {
	done := make(chan any, 1)
	gid := make(chan string, 1)
	go func() {
		buf := make([]byte, 64)
		buf = buf[:runtime.Stack(buf, false)]
		gid <- strings.Fields(string(buf))[1]
		done <- verifkit.Catch(f)
	}()
	id := <-gid
	limit := time.Duration(verifkit.EnvInt("C09_HANG_S", 240)) * time.Second
	for {
		select {
		case p := <-done:
			return p, ""
		case <-time.After(limit):
			buf := make([]byte, 16<<20)
			buf = buf[:runtime.Stack(buf, true)]
			for _, g := range strings.Split(string(buf), "\n\n") {
				lines := strings.Split(g, "\n")
				if !strings.HasPrefix(lines[0], "goroutine "+id+" [") {
					continue
				}
				if !strings.Contains(lines[0], "[running") && !strings.Contains(lines[0], "[runnable") {
					break
				}
				for _, l := range lines[1:] {
					if m := c09FrameRe.FindStringSubmatch(l); m != nil {
						return nil, strings.TrimPrefix(m[1], "github.com/sourcegraph/zoekt/")
					}
				}
			}
		}
	}
}

type c09Runner struct {
	tr   *verifkit.Trace
	work string
}

// one build being executed: its events in order (build first); every later event refers to the
// build event by the number of lines back
type c09Exec struct {
	work string
	evs  []c09M
	hung bool // a call into the index did not return: its goroutine still uses the mapped files
}

func (rn *c09Exec) emit(ev c09M) {
	ev["back"] = len(rn.evs)
	rn.evs = append(rn.evs, ev)
}

// runAll executes the builds on a few goroutines (a ShardBuilder allocates tens of megabytes)
// and writes their events in the order of the builds.
func (rn *c09Runner) runAll(builds []*c09Build) {
	nw := verifkit.EnvInt("C09_WORKERS", 6)
	results := make([][]c09M, len(builds))
	next := make(chan int, len(builds))
	for i := range builds {
		next <- i
	}
	close(next)
	var wg sync.WaitGroup
	for w := 0; w < nw; w++ {
		wg.Add(1)
		go func() {
			defer wg.Done()
			for i := range next {
				ex := &c09Exec{work: rn.work}
				ex.run(builds[i], i+1)
				results[i] = ex.evs
			}
		}()
	}
	wg.Wait()
	for _, evs := range results {
		for _, ev := range evs {
			rn.tr.Emit(ev)
		}
	}
}

func (rn *c09Exec) run(b *c09Build, id int) {
	dir, err := os.MkdirTemp(rn.work, "c09b")
	if err != nil {
		panic(err)
	}
	defer os.RemoveAll(dir)

	hash := ""
	if len(b.Repos) > 0 {
		o := b.indexOptions(dir, b.Repos[0])
		o.SetDefaults()
		hash = o.GetHash()
	}
	repos := []c09M{}
	for _, r := range b.Repos {
		docs := []c09M{}
		for i := range r.Docs {
			docs = append(docs, c09DocEvent(&r.Docs[i]))
		}
		repos = append(repos, c09M{"via": r.Via, "desc": c09Desc(&r.Desc), "docs": docs})
	}
	rn.evs = append(rn.evs, c09M{"ev": "build", "id": id, "family": b.Family, "script": b.Script, "path": b.Path,
		"opts": b.optsEvent(hash), "repos": repos})

	out := c09M{"ev": "readback", "id": id, "outcome": "ok", "msg": "", "nshards": 0, "repos": []c09M{}, "meta": []c09M{}, "docs": []c09M{}}
	var paths []string
	var files []*c09File
	var searchers []zoekt.Searcher
	defer func() {
		if rn.hung {
			return // never unmap under a goroutine that is still reading
		}
		for _, s := range searchers {
			s.Close()
		}
	}()
	stage := "build"
	var stageErr error
	if p := verifkit.Catch(func() { paths, stage, stageErr = b.materialise(dir) }); p != nil {
		out["outcome"], out["msg"] = "panic:"+stage, fmt.Sprint(p)
		rn.emit(out)
		return
	}
	if stageErr != nil {
		out["outcome"], out["msg"] = "error:"+stage, stageErr.Error()
		rn.emit(out)
		return
	}
	out["nshards"] = len(paths)
	for i, p := range paths {
		rstage := "read"
		var rerr error
		pv, hang := c09Guard(func() { rstage, rerr = c09Read(p, i+1, &out, &files, &searchers) })
		if hang != "" {
			// the abandoned goroutine may still write into `out`: report with a fresh event
			rn.hung = true
			rn.emit(c09M{"ev": "readback", "id": id, "outcome": "hang:read", "msg": hang, "nshards": len(paths),
				"repos": []c09M{}, "meta": []c09M{}, "docs": []c09M{}})
			return
		}
		if pv != nil {
			out["outcome"], out["msg"] = "panic:read", fmt.Sprint(pv)
			break
		}
		if rerr != nil {
			out["outcome"], out["msg"] = "error:"+rstage, rerr.Error()
			break
		}
	}
	docs := []c09M{}
	for _, f := range files {
		docs = append(docs, f.ev)
	}
	out["docs"] = docs
	rn.emit(out)
	if out["outcome"] != "ok" {
		return
	}
	rn.symsub(b, id, searchers)
	if !rn.hung {
		rn.tri(b, id, searchers)
	}
}

// symbol-substring probes: the text of one symbol of one document searched as sym:<text>
// (trigram path, rune-offset sections, sampled rune->byte offsets).
func (rn *c09Exec) symsub(b *c09Build, id int, searchers []zoekt.Searcher) {
	if b.SymSub <= 0 {
		return
	}
	type cand struct{ ri, di, k int }
	var cands []cand
	for ri, r := range b.Repos {
		keys := map[string]int{}
		for _, d := range r.Docs {
			keys[d.Name+"\x00"+strings.Join(c09Ordered(&r.Desc, d.Branches), "\x01")]++
		}
		for di, d := range r.Docs {
			if keys[d.Name+"\x00"+strings.Join(c09Ordered(&r.Desc, d.Branches), "\x01")] != 1 || c09Kind(d.Content) != "text" {
				continue
			}
			sorted := append([]c09Sym(nil), d.Syms...)
			sort.Slice(sorted, func(a, b int) bool { return sorted[a].S < sorted[b].S })
			for k, s := range sorted {
				if s.E-s.S >= 3 {
					cands = append(cands, cand{ri, di, k})
				}
			}
		}
	}
	rng := verifkit.Rng(int64(7000 + id))
	rng.Shuffle(len(cands), func(i, j int) { cands[i], cands[j] = cands[j], cands[i] })
	// prefer the last symbols of documents as well: keep the shuffle but cap
	if len(cands) > b.SymSub {
		cands = cands[:b.SymSub]
	}
	for _, c := range cands {
		r := b.Repos[c.ri]
		d := &r.Docs[c.di]
		sorted := append([]c09Sym(nil), d.Syms...)
		sort.Slice(sorted, func(a, b int) bool { return sorted[a].S < sorted[b].S })
		s := sorted[c.k]
		pat := string(d.Content[c09RuneToByte(d.Content, s.S):c09RuneToByte(d.Content, s.E)])
		q := &query.Symbol{Expr: &query.Substring{Pattern: pat, CaseSensitive: true, Content: true}}
		ev := c09M{"ev": "symsub", "id": id, "ri": c.ri + 1, "di": c.di + 1, "k": c.k + 1, "pat": verifkit.Runes(pat),
			"outcome": "ok", "msg": "", "found": false, "ranges": []c09M{}}
		want := c09Ordered(&r.Desc, d.Branches)
		for _, srch := range searchers {
			var sr *zoekt.SearchResult
			var err error
			p, hang := c09Guard(func() {
				sr, err = srch.Search(context.Background(), q, &zoekt.SearchOptions{ChunkMatches: true, Whole: true})
			})
			if hang != "" {
				ev["outcome"], ev["msg"] = "hang", hang
				rn.hung = true
				break
			}
			if p != nil {
				ev["outcome"], ev["msg"] = "panic", fmt.Sprint(p)
				break
			}
			if err != nil {
				ev["outcome"], ev["msg"] = "error", err.Error()
				break
			}
			for i := range sr.Files {
				fm := &sr.Files[i]
				if fm.Repository != r.Desc.Name || fm.FileName != d.Name || strings.Join(fm.Branches, "\x01") != strings.Join(want, "\x01") {
					continue
				}
				ev["found"] = true
				rs := []c09M{}
				for _, cm := range fm.ChunkMatches {
					if cm.FileName {
						continue
					}
					for _, rg := range cm.Ranges {
						rs = append(rs, c09Offsets(fm.Content, int(rg.Start.ByteOffset), int(rg.End.ByteOffset)))
					}
				}
				sort.Slice(rs, func(a, b int) bool { return rs[a]["bs"].(int) < rs[b]["bs"].(int) })
				ev["ranges"] = rs
			}
		}
		rn.emit(ev)
		if rn.hung {
			return
		}
	}
}

// branch names of a document in the order of the repository's branch list
func c09Ordered(desc *zoekt.Repository, branches []string) []string {
	res := []string{}
	for _, b := range desc.Branches {
		for _, x := range branches {
			if x == b.Name {
				res = append(res, b.Name)
				break
			}
		}
	}
	return res
}

// trigram / substring probes through the n-gram index (b-tree buckets, posting lists)
func (rn *c09Exec) tri(b *c09Build, id int, searchers []zoekt.Searcher) {
	for _, tq := range b.Tri {
		q := &query.Substring{Pattern: tq.Pat, CaseSensitive: true, Content: !tq.FileName, FileName: tq.FileName}
		ev := c09M{"ev": "tri", "id": id, "pat": verifkit.Runes(tq.Pat), "fileName": tq.FileName, "outcome": "ok", "msg": "", "files": []c09M{}}
		files := []c09M{}
		for _, srch := range searchers {
			var sr *zoekt.SearchResult
			var err error
			p, hang := c09Guard(func() { sr, err = srch.Search(context.Background(), q, &zoekt.SearchOptions{}) })
			if hang != "" {
				ev["outcome"], ev["msg"] = "hang", hang
				rn.hung = true
				break
			}
			if p != nil {
				ev["outcome"], ev["msg"] = "panic", fmt.Sprint(p)
				break
			}
			if err != nil {
				ev["outcome"], ev["msg"] = "error", err.Error()
				break
			}
			for i := range sr.Files {
				fm := &sr.Files[i]
				br := fm.Branches
				if br == nil {
					br = []string{}
				}
				files = append(files, c09M{"repo": fm.Repository, "name": verifkit.Runes(fm.FileName), "branches": br, "sum": fmt.Sprintf("%x", fm.Checksum)})
			}
		}
		ev["files"] = files
		rn.emit(ev)
		if rn.hung {
			return
		}
	}
}

func c09Open(t *testing.T) *c09Runner {
	log.SetOutput(io.Discard)
	tr := verifkit.Open(t)
	work := os.Getenv("VERIF_WORK")
	if work == "" {
		work = t.TempDir()
	}
	ms := []c09M{}
	for _, m := range c09Markers {
		ms = append(ms, c09M{"reason": m.Reason, "text": verifkit.Runes(m.Text), "crc": c09Sum([]byte(m.Text))})
	}
	tr.Emit(c09M{"ev": "markers", "list": ms})
	return &c09Runner{tr: tr, work: work}
}

// ---------------------------------------------------------------- descriptions

func c09Repo1(name string, id uint32, branches ...string) zoekt.Repository {
	r := zoekt.Repository{Name: name, ID: id, URL: "https://example.com/" + name, Source: "/src/" + name,
		FileURLTemplate: "https://example.com/" + name + "/{{.Version}}/{{.Path}}", LineFragmentTemplate: "#L{{.LineNumber}}",
		CommitURLTemplate: "https://example.com/" + name + "/commit/{{.Version}}"}
	for i, b := range branches {
		r.Branches = append(r.Branches, zoekt.RepositoryBranch{Name: b, Version: fmt.Sprintf("%s-v%d", b, i)})
	}
	return r
}

func c09RandDesc(rng *rand.Rand, name string, id uint32) zoekt.Repository {
	pool := []string{"main", "dev", "release/1.0", "HEAD", "é-branch", "b b", "x", "feature/long-branch-name-0123456789"}
	rng.Shuffle(len(pool), func(i, j int) { pool[i], pool[j] = pool[j], pool[i] })
	r := c09Repo1(name, id, pool[:1+rng.Intn(4)]...)
	if rng.Intn(2) == 0 {
		r.RawConfig = map[string]string{"repoid": fmt.Sprint(id), "public": "1"}
		if rng.Intn(2) == 0 {
			r.RawConfig["fork"] = "0"
			r.RawConfig["名"] = "值 \"quoted\" \\ <>&"
		}
	}
	if rng.Intn(3) == 0 {
		r.RawConfig = map[string]string{}
	}
	switch rng.Intn(3) {
	case 0:
		r.Metadata = map[string]string{"license": "MIT", "team": "search é", "": "empty key", "k": ""}
	case 1:
		r.Metadata = map[string]string{}
	}
	r.Rank = uint16(rng.Intn(65536))
	r.IndexOptions = []string{"", "opts-" + name, "0123456789abcdef"}[rng.Intn(3)]
	r.HasSymbols = rng.Intn(2) == 0
	if rng.Intn(2) == 0 {
		r.LatestCommitDate = time.Unix(int64(1_000_000_000+rng.Intn(700_000_000)), 0).UTC()
	}
	if rng.Intn(4) == 0 {
		r.TenantID = 1 + rng.Intn(3)
		if r.RawConfig != nil {
			r.RawConfig["tenantID"] = fmt.Sprint(r.TenantID)
		}
	}
	return r
}

// sub-repositories have the branch list of their parent (one version per parent branch)
func c09AddSubRepos(r *zoekt.Repository, paths ...string) {
	r.SubRepoMap = map[string]*zoekt.Repository{}
	for i, p := range paths {
		s := &zoekt.Repository{Name: fmt.Sprintf("%s/sub%d", r.Name, i), URL: "https://example.com/sub/" + p}
		for j, b := range r.Branches {
			s.Branches = append(s.Branches, zoekt.RepositoryBranch{Name: b.Name, Version: fmt.Sprintf("sub%d-%d", i, j)})
		}
		r.SubRepoMap[p] = s
	}
}

func c09BranchNames(r *zoekt.Repository) []string {
	res := []string{}
	for _, b := range r.Branches {
		res = append(res, b.Name)
	}
	return res
}

// ---------------------------------------------------------------- generators

var c09Alphabet = []rune{'a', 'b', 'c', 'A', '_', '1', ' ', '\n', '.', '(', 'é', 'ß', '中', '😀'}
var c09Langs = []string{"Go", "Markdown", "C", "Text", "Zig", ""}
var c09Kinds = []string{"function", "class", "variable", "method", ""}

func c09RandText(rng *rand.Rand, n int) string {
	var sb strings.Builder
	for i := 0; i < n; i++ {
		sb.WriteRune(c09Alphabet[rng.Intn(len(c09Alphabet))])
	}
	return sb.String()
}

// non-overlapping symbols over a text of n runes; at most max of them
func c09RandSyms(rng *rand.Rand, n, max int) []c09Sym {
	var res []c09Sym
	pos := 0
	for len(res) < max {
		s := pos + rng.Intn(4)
		l := 1 + rng.Intn(6)
		if s+l > n {
			break
		}
		res = append(res, c09Sym{S: s, E: s + l, Kind: c09Kinds[rng.Intn(len(c09Kinds))],
			Parent: []string{"", "Outer", "pkg.é"}[rng.Intn(3)], PKind: []string{"", "class", "namespace"}[rng.Intn(3)]})
		pos = s + l + rng.Intn(3)
	}
	// the builder sorts: hand them over in a random order
	rng.Shuffle(len(res), func(i, j int) { res[i], res[j] = res[j], res[i] })
	return res
}

func c09Subset(rng *rand.Rand, xs []string) []string {
	res := []string{}
	for _, x := range xs {
		if rng.Intn(2) == 0 {
			res = append(res, x)
		}
	}
	if len(res) == 0 && len(xs) > 0 && rng.Intn(6) != 0 {
		res = append(res, xs[rng.Intn(len(xs))])
	}
	rng.Shuffle(len(res), func(i, j int) { res[i], res[j] = res[j], res[i] })
	return res
}

var c09Names = []string{"a.go", "dir/b.txt", "x/y/Z.md", "main.c", "abc", "é中.md", "big.bin", "dir/big.bin", "a b.txt", ".hidden", "sub/f.go", "sub/deep/g.c", "vendor/v.go", "x_test.go", "README"}

func c09RandDoc(rng *rand.Rand, r *zoekt.Repository, maxLen int) c09Doc {
	name := c09Names[rng.Intn(len(c09Names))]
	n := rng.Intn(maxLen + 1)
	if rng.Intn(5) == 0 {
		n = rng.Intn(5)
	}
	text := c09RandText(rng, n)
	d := c09Doc{Name: name, Content: []byte(text), Branches: c09Subset(rng, c09BranchNames(r)), Lang: c09Langs[rng.Intn(len(c09Langs))]}
	switch rng.Intn(14) {
	case 0:
		rs := []rune(text)
		if len(rs) > 0 {
			rs[rng.Intn(len(rs))] = 0
		}
		d.Content = []byte(string(rs))
	case 1: // invalid UTF-8
		b := []byte(text)
		if len(b) > 0 {
			b[rng.Intn(len(b))] = []byte{0xff, 0xc3, 0x80, 0xe4, 0xf0}[rng.Intn(5)]
		}
		d.Content = b
	}
	if c09Kind(d.Content) == "text" && bytes.IndexByte(d.Content, 0) < 0 && rng.Intn(2) == 0 {
		d.Syms = c09RandSyms(rng, utf8.RuneCount(d.Content), 6)
	}
	for p := range r.SubRepoMap {
		if p != "" && strings.HasPrefix(name, p+"/") && rng.Intn(3) != 0 {
			if d.SubRepo == "" || len(p) > len(d.SubRepo) {
				d.SubRepo = p
			}
		}
	}
	return d
}

func c09RandBuild(rng *rand.Rand, n int) *c09Build {
	b := &c09Build{Family: "random", SizeMax: []int{6, 40, 2 << 20}[rng.Intn(3)], TrigramMax: []int{2, 6, 25, 20000}[rng.Intn(4)], ShardMax: 100 << 20, SymSub: 3}
	if rng.Intn(2) == 0 {
		for k := rng.Intn(3); k >= 0; k-- {
			b.Large = append(b.Large, c09Pat{Neg: rng.Intn(3) == 0, Kind: []string{"exact", "suffix", "deep"}[rng.Intn(3)],
				Arg: []string{"big.bin", ".bin", ".md", "dir/big.bin", ".go"}[rng.Intn(5)]})
		}
		for i := range b.Large {
			if b.Large[i].Kind != "exact" && !strings.HasPrefix(b.Large[i].Arg, ".") {
				b.Large[i].Kind = "exact"
			}
		}
	}
	nrepos := 1
	switch rng.Intn(5) {
	case 0, 1:
		b.Path = "shard"
	case 2, 3:
		b.Path = "builder"
		if rng.Intn(4) == 0 {
			b.ShardMax = 60 // several shards
		}
	default:
		b.Path = "merge"
		nrepos = 2 + rng.Intn(2)
	}
	for ri := 0; ri < nrepos; ri++ {
		desc := c09RandDesc(rng, fmt.Sprintf("repo%d/%c", n, 'a'+ri), uint32(100+10*n+ri))
		if rng.Intn(3) == 0 {
			c09AddSubRepos(&desc, "sub", "sub/deep")
		}
		r := &c09Repo{Via: b.Path, Desc: desc}
		if b.Path == "merge" {
			r.Via = []string{"shard", "builder"}[rng.Intn(2)]
		}
		nd := 1 + rng.Intn(6)
		if b.Path != "merge" && rng.Intn(10) == 0 {
			nd = 0
		}
		maxLen := []int{8, 30, 120, 310}[rng.Intn(4)]
		for k := 0; k < nd; k++ {
			d := c09RandDoc(rng, &desc, maxLen)
			if rng.Intn(8) == 0 && len(r.Docs) > 0 {
				// same name (and maybe same branches / same everything) as an earlier document
				prev := r.Docs[rng.Intn(len(r.Docs))]
				switch rng.Intn(3) {
				case 0:
					d = prev
				case 1:
					d.Name, d.Branches, d.SubRepo = prev.Name, prev.Branches, prev.SubRepo
				default:
					d.Name, d.SubRepo = prev.Name, prev.SubRepo
				}
			}
			r.Docs = append(r.Docs, d)
		}
		c09FixDuplicates(r)
		b.Repos = append(b.Repos, r)
		for _, d := range r.Docs {
			if c09Kind(d.Content) != "text" {
				// the trigram decision on text that is not interpreted is outside the specification
				b.TrigramMax = 20000
			}
		}
	}
	return b
}

// documents with identical (name, branches, content) must carry identical symbols: the symbol
// readback is joined to the document readback by that key.
func c09FixDuplicates(r *c09Repo) {
	seen := map[string]int{}
	for i := range r.Docs {
		d := &r.Docs[i]
		k := d.Name + "\x00" + strings.Join(c09Ordered(&r.Desc, d.Branches), "\x01") + "\x00" + string(d.Content)
		if j, ok := seen[k]; ok {
			d.Syms = r.Docs[j].Syms
		} else {
			seen[k] = i
		}
	}
}

func c09Simple(family, via string, desc zoekt.Repository, docs ...c09Doc) *c09Build {
	return &c09Build{Family: family, Path: via, SizeMax: 2 << 20, TrigramMax: 20000, ShardMax: 100 << 20, SymSub: 4,
		Repos: []*c09Repo{{Via: via, Desc: desc, Docs: docs}}}
}

// the same repositories as one compound shard (each repository needs at least one document)
func c09Merged(family string, builds ...*c09Build) *c09Build {
	m := &c09Build{Family: family, Path: "merge", SizeMax: builds[0].SizeMax, TrigramMax: builds[0].TrigramMax, ShardMax: 100 << 20,
		Large: builds[0].Large, SymSub: 4}
	for i, b := range builds {
		r := *b.Repos[0]
		r.Desc.Name = fmt.Sprintf("%s-m%d", r.Desc.Name, i)
		r.Desc.ID += uint32(1000 * (i + 1))
		if _, ok := r.Desc.RawConfig["repoid"]; ok {
			rc := map[string]string{}
			for k, v := range r.Desc.RawConfig {
				rc[k] = v
			}
			rc["repoid"] = fmt.Sprint(r.Desc.ID)
			r.Desc.RawConfig = rc
		}
		m.Repos = append(m.Repos, &r)
		m.Tri = append(m.Tri, b.Tri...)
	}
	return m
}

func c09Doc1(name, content string, branches ...string) c09Doc {
	return c09Doc{Name: name, Content: []byte(content), Branches: branches, Lang: "Text"}
}

// text of n runes with the given runes at the given rune offsets, ASCII elsewhere
func c09TextWith(n int, at map[int]rune) string {
	rs := make([]rune, n)
	for i := range rs {
		rs[i] = rune('a' + i%7)
		if i%11 == 10 {
			rs[i] = '\n'
		}
	}
	for i, r := range at {
		if i < n {
			rs[i] = r
		}
	}
	return string(rs)
}

func c09Tri(i int) string {
	const al = "abcdefghijklmn" // 14^3 = 2744 distinct trigrams
	return string([]byte{al[i/196%14], al[i/14%14], al[i%14]})
}

// corner-case families of the property's quantifier
func c09Corners(rng *rand.Rand) []*c09Build {
	var res []*c09Build
	add := func(b ...*c09Build) { res = append(res, b...) }
	both := func(family string, desc zoekt.Repository, tune func(*c09Build), docs ...c09Doc) {
		var bs []*c09Build
		for _, via := range []string{"shard", "builder"} {
			b := c09Simple(family, via, desc, docs...)
			if tune != nil {
				tune(b)
			}
			bs = append(bs, b)
		}
		add(bs...)
		if len(docs) > 0 {
			add(c09Merged(family, bs...))
		}
	}
	plain := c09Repo1("corner/plain", 7, "main", "dev")

	// 0/1/2/3-byte files, with and without NUL, multi-byte
	var tiny []c09Doc
	for i, c := range []string{"", "a", "ab", "abc", "é", "éa", "中", "\x00", "a\x00", "ab\x00", "\n", "\n\n", "abcd", "😀", "a\n"} {
		tiny = append(tiny, c09Doc1(fmt.Sprintf("tiny/%02d.txt", i), c, "main"))
	}
	both("sizes", plain, nil, tiny...)
	both("sizes-limits", plain, func(b *c09Build) { b.SizeMax, b.TrigramMax = 3, 2 }, tiny...)

	// invalid UTF-8: contents are bytes for the specification
	var inv []c09Doc
	for i, c := range []string{"\xff", "\xc3", "\xe4\xb8", "a\xffb", "\xc3\x28", "\xc0\xaf", "\xed\xa0\x80", "\xf4\x90\x80\x80", "abc\x80def\xfe\xff",
		"ok then \xe4\xb8\xad and \xe4\xb8 cut", "\x80\x80\x80\x80", "line1\n\xffline2\n"} {
		inv = append(inv, c09Doc1(fmt.Sprintf("inv/%02d.bin", i), c, "main", "dev"))
	}
	rb := make([]byte, 300)
	for i := range rb {
		rb[i] = byte(1 + rng.Intn(255))
	}
	inv = append(inv, c09Doc{Name: "inv/random.bin", Content: rb, Branches: []string{"dev"}, Lang: "Text"})
	both("invalid-utf8", plain, nil, inv...)

	// very long lines: 10^4 runes, logged as length + checksum
	long1 := strings.Repeat("x", 10000)
	long2 := c09TextWith(10000, map[int]rune{0: 'é', 99: '中', 100: '😀', 101: 'ß', 5000: '中', 9999: 'é'})
	long2 = strings.ReplaceAll(long2, "\n", "-")
	long3 := strings.Repeat("ab cd ", 1700) + "\n"
	both("longline", plain, nil,
		c09Doc{Name: "long/ascii.txt", Content: []byte(long1), Branches: []string{"main"}, Lang: "Text",
			Syms: []c09Sym{{S: 0, E: 5, Kind: "function"}, {S: 9990, E: 10000, Kind: "variable", Parent: "P", PKind: "class"}}},
		c09Doc{Name: "long/multi.txt", Content: []byte(long2), Branches: []string{"dev"}, Lang: "Text",
			Syms: []c09Sym{{S: 98, E: 103, Kind: "function"}, {S: 4998, E: 5003, Kind: "class"}, {S: 9995, E: 10000, Kind: "variable"}}},
		c09Doc{Name: "long/nl.txt", Content: []byte(long3), Branches: []string{"main", "dev"}, Lang: "Text"},
		c09Doc1("long/short.txt", "after the long ones é", "main"))
	both("longline-limit", plain, func(b *c09Build) {
		b.SizeMax = 9999
		b.Large = []c09Pat{{Kind: "exact", Arg: "long/nl.txt"}}
	},
		c09Doc{Name: "long/ascii.txt", Content: []byte(long1), Branches: []string{"main"}, Lang: "Text"},
		c09Doc{Name: "long/nl.txt", Content: []byte(long3), Branches: []string{"main", "dev"}, Lang: "Text"},
		c09Doc{Name: "long/9999.txt", Content: []byte(long1[:9999]), Branches: []string{"main"}, Lang: "Text"})

	// exactly 64 branches
	var names64 []string
	for i := 0; i < 64; i++ {
		names64 = append(names64, fmt.Sprintf("b%02d", i))
	}
	r64 := c09Repo1("corner/branches64", 64, names64...)
	var d64 []c09Doc
	for i, set := range [][]int{{0}, {63}, {0, 63}, {31, 32}, {32}, {31}, {}, {62, 63}, {1, 2, 3}} {
		var br []string
		for _, k := range set {
			br = append(br, names64[k])
		}
		d64 = append(d64, c09Doc1(fmt.Sprintf("b64/%d.txt", i), fmt.Sprintf("content %d on some branches\n", i), br...))
	}
	d64 = append(d64, c09Doc1("b64/all.txt", "on every branch\n", names64...))
	d64 = append(d64, c09Doc1("b64/rand.txt", "random subset\n", c09Subset(rng, names64)...))
	for _, via := range []string{"shard", "builder"} {
		add(c09Simple("branches64", via, r64, d64...))
	}
	// compound: low branches only / high branches too (separately, so that one failure does not hide the other)
	add(c09Merged("branches64-low", c09Simple("", "shard", r64, d64[0], d64[5], d64[8]), c09Simple("", "shard", plain, tiny[3])))
	add(c09Merged("branches64-high", c09Simple("", "shard", r64, d64...), c09Simple("", "shard", plain, tiny[3])))

	// multi-byte runes at the 100-rune sampling points (document-local and shard-global offsets)
	for _, pre := range []int{0, 37, 100} {
		var docs []c09Doc
		if pre > 0 {
			docs = append(docs, c09Doc1("samp/pre.txt", c09TextWith(pre, map[int]rune{3: 'é'}), "main"))
		}
		global := pre // rune offset of the next document within the shard (ShardBuilder path: insertion order)
		for i, offs := range [][]int{{99}, {100}, {101}, {199}, {200}, {99, 100, 101, 199, 200}, {98, 99}, {0}, {}} {
			n := 95 + (i*53)%211
			if n <= 205 && len(offs) > 1 {
				n = 305
			}
			// offs are shard-global rune offsets (the sampling counts runes over the whole shard);
			// with a preceding document also place the rune at the document-local offset
			at := map[int]rune{}
			for k, o := range offs {
				r := []rune{'é', '中', '😀', 'ß'}[(i+k)%4]
				for local := ((o-global)%100 + 100) % 100; local < n; local += 100 {
					at[local] = r
				}
				if o < n {
					at[o] = r
				}
			}
			global += n
			text := c09TextWith(n, at)
			d := c09Doc{Name: fmt.Sprintf("samp/%d_%d.txt", pre, i), Content: []byte(text), Branches: []string{"main"}, Lang: "Text"}
			for _, o := range []int{96, 99, 102, 196, 199, 202} {
				if o+4 <= n {
					d.Syms = append(d.Syms, c09Sym{S: o, E: o + 3, Kind: "function"})
				}
			}
			docs = append(docs, d)
		}
		both(fmt.Sprintf("sampling-%d", pre), plain, func(b *c09Build) { b.SymSub = 40 }, docs...)
	}

	// number of distinct trigrams at b-tree bucket multiples: N three-rune documents
	ns := []int{513, 1025, 1600} // 1600: three b-tree buckets, the second split has happened
	if verifkit.Thorough() {
		ns = []int{1, 2, 511, 512, 513, 1023, 1024, 1025, 1536, 1537, 2048, 2049, 2560}
	}
	for _, n := range ns {
		var docs []c09Doc
		for i := 0; i < n; i++ {
			docs = append(docs, c09Doc1(fmt.Sprintf("t%04d", i), c09Tri(i), "main"))
		}
		var tq []c09TriQ
		for _, i := range []int{0, 1, 255, 256, 510, 511, 512, 513, 767, 768, 1022, 1023, 1024, 1025, 1535, 1536, 1537, 2047, 2048, n - 2, n - 1, n, n + 1} {
			if i >= 0 {
				tq = append(tq, c09TriQ{Pat: c09Tri(i)})
			}
		}
		tq = append(tq, c09TriQ{Pat: "t0000", FileName: true}, c09TriQ{Pat: fmt.Sprintf("t%04d", n-1), FileName: true}, c09TriQ{Pat: "0512", FileName: true}, c09TriQ{Pat: "zzz"})
		b := c09Simple(fmt.Sprintf("btree-%d", n), "shard", plain, docs...)
		b.Tri, b.SymSub = tq, 0
		add(b)
		if n == 1025 || verifkit.Thorough() && n%512 != 1 {
			add(c09Merged(fmt.Sprintf("btree-%d", n), b, c09Simple("", "shard", plain, c09Doc1("other", "zzz yyy"))))
		}
	}
	// the same through one document holding all trigrams (one posting list per trigram, one document)
	{
		var sb strings.Builder
		for i := 0; i < 1024; i++ {
			sb.WriteString(c09Tri(i))
			sb.WriteByte('\n')
		}
		b := c09Simple("btree-onedoc", "shard", plain, c09Doc1("all.txt", sb.String(), "main"), c09Doc1("other.txt", "nnn\nmmm\n", "dev"))
		b.Tri = []c09TriQ{{Pat: "aaa"}, {Pat: c09Tri(1023)}, {Pat: "nnn"}, {Pat: "mmm"}, {Pat: "n\nm"}, {Pat: "all.txt", FileName: true}}
		add(b)
	}

	// 0..200 symbols
	for _, ns := range []int{0, 1, 2, 50, 199, 200} {
		var sb strings.Builder
		var syms []c09Sym
		for i := 0; i < ns; i++ {
			w := []string{"fn", "Üx", "中文", "abc"}[i%4] + fmt.Sprint(i)
			s := utf8.RuneCountInString(sb.String())
			sb.WriteString(w)
			syms = append(syms, c09Sym{S: s, E: s + utf8.RuneCountInString(w), Kind: c09Kinds[i%len(c09Kinds)],
				Parent: []string{"", "Outer", "pkg.é"}[i%3], PKind: []string{"", "class"}[i%2]})
			if i%5 != 4 {
				sb.WriteString([]string{" ", "\n", "("}[i%3]) // every fifth symbol is adjacent to the next
			}
		}
		text := sb.String()
		if ns == 0 {
			text = "no symbols here\n"
		}
		rng.Shuffle(len(syms), func(i, j int) { syms[i], syms[j] = syms[j], syms[i] })
		both(fmt.Sprintf("symbols-%d", ns), plain, func(b *c09Build) { b.SymSub = 12 },
			c09Doc1("sym/before.txt", "é before\n", "main"),
			c09Doc{Name: "sym/s.go", Content: []byte(text), Branches: []string{"main", "dev"}, Lang: "Go", Syms: syms},
			c09Doc{Name: "sym/end.bat", Content: []byte("goto :label"), Branches: []string{"dev"}, Lang: "Batchfile",
				Syms: []c09Sym{{S: 5, E: 11, Kind: "label"}, {S: 0, E: 4, Kind: "keyword", Parent: "p", PKind: "k"}}})
	}

	// sub-repositories
	{
		r := c09Repo1("corner/super", 9, "main", "dev")
		c09AddSubRepos(&r, "sub", "sub/deep", "other/mod")
		both("subrepos", r, nil,
			c09Doc1("top.go", "package top\n", "main"),
			c09Doc{Name: "sub/f.go", Content: []byte("package sub\n"), Branches: []string{"main", "dev"}, Lang: "Go", SubRepo: "sub"},
			c09Doc{Name: "sub/deep/g.go", Content: []byte("package deep\n"), Branches: []string{"dev"}, Lang: "Go", SubRepo: "sub/deep"},
			c09Doc{Name: "sub/deep/h.go", Content: []byte("package deep2\n"), Branches: []string{"dev"}, Lang: "Go", SubRepo: "sub"},
			c09Doc{Name: "other/mod/x.c", Content: []byte("int x;\n"), Branches: []string{}, Lang: "C", SubRepo: "other/mod"},
			c09Doc{Name: "sub/nosub.go", Content: []byte("package nosub\n"), Branches: []string{"main"}, Lang: "Go"})
	}

	// skip decisions at their limits (size == SizeMax, +1; trigrams == TrigramMax, +1; patterns)
	{
		docs := []c09Doc{
			c09Doc1("lim/10.txt", "0123456789", "main"), c09Doc1("lim/11.txt", "0123456789a", "main"),
			c09Doc1("big.bin", strings.Repeat("z", 50), "main"), c09Doc1("dir/big.bin", strings.Repeat("y", 50), "main"),
			c09Doc1("dir/sub/x.md", strings.Repeat("md ", 20), "main"), c09Doc1("x.md", strings.Repeat("md ", 20), "dev"),
			c09Doc1("tri/4.txt", "abcdef", "main"), c09Doc1("tri/5.txt", "abcdefg", "main"), c09Doc1("tri/rep.txt", "abababababab", "dev"),
			c09Doc1("tri/mb.txt", "éééééé", "main"), c09Doc1("tri/mb5.txt", "é中ß😀éab", "main"),
			c09Doc1("nul/big.bin", "bin\x00"+strings.Repeat("q", 30), "main"), c09Doc1("nul/s.txt", "\x00\x00\x00", "dev"),
			{Name: "lim/sym.txt", Content: []byte("0123456789ab"), Branches: []string{"main"}, Lang: "Text", Syms: []c09Sym{{S: 0, E: 4, Kind: "f"}}},
		}
		for k, pats := range [][]c09Pat{nil, {{Kind: "exact", Arg: "big.bin"}}, {{Kind: "suffix", Arg: ".bin"}}, {{Kind: "deep", Arg: ".bin"}},
			{{Kind: "deep", Arg: ".md"}, {Neg: true, Kind: "exact", Arg: "x.md"}}, {{Neg: true, Kind: "deep", Arg: ".bin"}, {Kind: "deep", Arg: ".bin"}},
			{{Kind: "deep", Arg: ".bin"}, {Neg: true, Kind: "suffix", Arg: ".bin"}}, {{Kind: "deep", Arg: ".txt"}}} {
			both(fmt.Sprintf("skips-%d", k), plain, func(b *c09Build) { b.SizeMax, b.TrigramMax, b.Large = 10, 4, pats }, docs...)
		}
	}

	// rich repository description; repositories without documents
	{
		r := c09Repo1("corner/méta \"quoted\" <&>", 4242, "main", "dev", "release/1.0")
		r.RawConfig = map[string]string{"repoid": "4242", "public": "1", "fork": "0", "archived": "1", "名": "值"}
		r.Metadata = map[string]string{"license": "MIT", "": "empty key", "empty": "", "unicode": "é中😀\n\t\\"}
		r.Rank, r.IndexOptions, r.HasSymbols = 65535, "given-by-caller", true
		r.LatestCommitDate = time.Unix(1_700_000_000, 0).UTC()
		c09AddSubRepos(&r, "", "sub") // the root entry is dropped by the builder
		both("meta", r, nil, c09Doc1("a.txt", "hello\n", "main"), c09Doc{Name: "sub/b.txt", Content: []byte("sub\n"), Branches: []string{"dev"}, Lang: "Text", SubRepo: "sub"})
		e := c09Repo1("corner/empty", 5, "main")
		e.Metadata = map[string]string{"k": "v"}
		both("empty-repo", e, nil)
		nb := c09Repo1("corner/nobranches", 6)
		both("no-branches", nb, nil, c09Doc1("a.txt", "hello\n"))
	}

	// duplicates
	both("dups", plain, nil,
		c09Doc1("d.txt", "same\n", "main"), c09Doc1("d.txt", "same\n", "main"), c09Doc1("d.txt", "same\n", "dev"),
		c09Doc1("d.txt", "other\n", "main"), c09Doc1("d.txt", "same\n", "dev", "main"), c09Doc1("e.txt", "same\n", "main"),
		c09Doc1("", "empty name\n", "main"), c09Doc1(strings.Repeat("long/é/", 40)+"f.txt", "long name\n", "dev"))

	// several shards from one Builder run
	{
		var docs []c09Doc
		for i := 0; i < 12; i++ {
			docs = append(docs, c09Doc1(fmt.Sprintf("ms/%02d.txt", i), fmt.Sprintf("document number %d é\nsecond line\n", i), []string{"main", "dev"}[i%2]))
		}
		b := c09Simple("multishard", "builder", plain, docs...)
		b.ShardMax = 100
		add(b)
	}
	return res
}

// ---------------------------------------------------------------- tests

type c09ScriptDoc struct {
	Name     []int    `json:"name"`
	Content  []int    `json:"content"`
	Branches []string `json:"branches"`
}

type c09Script struct {
	Path       string         `json:"path"`
	SizeMax    int            `json:"sizeMax"`
	TrigramMax int            `json:"trigramMax"`
	Large      []c09ScriptPat `json:"large"`
	Docs       []c09ScriptDoc `json:"docs"`
	N          int            `json:"n"`
}

type c09ScriptPat struct {
	Neg  bool   `json:"neg"`
	Kind string `json:"kind"`
	Arg  []int  `json:"arg"`
}

func c09Str(cps []int) string {
	var sb strings.Builder
	for _, c := range cps {
		sb.WriteRune(rune(c))
	}
	return sb.String()
}

// R: scripts enumerated by TLC from ShardView.tla
func TestVerif_C09_Replay(t *testing.T) {
	scripts := verifkit.ReadScripts(t)
	rn := c09Open(t)
	defer rn.tr.Close()
	desc := c09Repo1("tlc/repo", 3, "main", "dev")
	var builds []*c09Build
	for _, raw := range scripts {
		var sc c09Script
		if err := json.Unmarshal(raw, &sc); err != nil {
			t.Fatal(err)
		}
		b := &c09Build{Family: "tlc", Script: sc.N, Path: sc.Path, SizeMax: sc.SizeMax, TrigramMax: sc.TrigramMax, ShardMax: 100 << 20}
		for _, p := range sc.Large {
			b.Large = append(b.Large, c09Pat{Neg: p.Neg, Kind: p.Kind, Arg: c09Str(p.Arg)})
		}
		r := &c09Repo{Via: sc.Path, Desc: desc}
		if sc.Path == "merge" {
			r.Via = "builder"
		}
		for _, d := range sc.Docs {
			r.Docs = append(r.Docs, c09Doc{Name: c09Str(d.Name), Content: []byte(c09Str(d.Content)), Branches: d.Branches, Lang: "Text"})
		}
		b.Repos = []*c09Repo{r}
		if sc.Path == "merge" {
			other := c09Repo1("tlc/other", 4, "main")
			b.Repos = append(b.Repos, &c09Repo{Via: "shard", Desc: other, Docs: []c09Doc{c09Doc1("o.txt", "other repo\n", "main")}})
		}
		builds = append(builds, b)
	}
	rn.runAll(builds)
}

// V: corner-case families and seeded random builds
func TestVerif_C09_Generated(t *testing.T) {
	rn := c09Open(t)
	defer rn.tr.Close()
	builds := c09Corners(verifkit.Rng(1))
	n := verifkit.EnvInt("C09_RANDOM", verifkit.Pick(120, 1500))
	for i := 0; i < n; i++ {
		builds = append(builds, c09RandBuild(verifkit.Rng(int64(100+i)), i))
	}
	rn.runAll(builds)
}
