//go:build verif

package index_test

import (
	"bytes"
	"context"
	"encoding/json"
	"fmt"
	"io"
	"log"
	"os"
	"os/exec"
	"path/filepath"
	"runtime"
	"sort"
	"strconv"
	"strings"
	"sync"
	"testing"
	"time"

	"github.com/grafana/regexp"

	"github.com/sourcegraph/zoekt"
	"github.com/sourcegraph/zoekt/index"
	"github.com/sourcegraph/zoekt/internal/verifkit"
	"github.com/sourcegraph/zoekt/query"
	"github.com/sourcegraph/zoekt/search"
)

// C17: tombstoned repositories and paths stay hidden.
//
// A scenario (TLC's fixed corpus, or a seeded random one) is built with the real builder and
// the real merge code; SetTombstone/UnsetTombstone are applied to the compound shard; after
// every step the shard is reloaded (fresh index.NewSearcher and fresh
// search.NewDirectorySearcher) and every output channel of a query set is projected.
// Trace_Tombstone.tla recomputes what may be visible (TombstoneOps) and judges each step.

type c17Doc struct {
	Name  string   `json:"name"`
	Words []string `json:"words"`
}

type c17Repo struct {
	ID      uint32   `json:"id"`
	Docs    []c17Doc `json:"docs"`
	FT      []string `json:"ft"`
	Changed []string `json:"changed"`
}

type c17Shard struct {
	Repos []c17Repo `json:"repos"`
}

type c17Query struct {
	K string     `json:"k"`
	W string     `json:"w"`
	S []uint32   `json:"s"`
	C []c17Query `json:"c"`
}

type c17Corpus struct {
	Kind    string     `json:"kind"` // "compound": shard 1 is the merge of its repos, others simple; "delta": builds of one repository
	Shards  []c17Shard `json:"shards"`
	Queries []c17Query `json:"queries"`
}

type c17Op struct {
	Op    string `json:"op"` // set | unset
	ID    uint32 `json:"id"`
	Fault bool   `json:"fault"`
}

type c17Script struct {
	Ops []c17Op `json:"ops"`
}

func c17Name(id uint32) string { return "r" + strconv.Itoa(int(id)) }

// c17ID maps a repository name seen in an output channel back to its id (0: unknown name).
func c17ID(name string) uint32 {
	if strings.HasPrefix(name, "r") {
		if n, err := strconv.Atoi(name[1:]); err == nil && n > 0 {
			return uint32(n)
		}
	}
	return 0
}

func c17Fix(c *c17Corpus) {
	for i := range c.Shards {
		for j := range c.Shards[i].Repos {
			r := &c.Shards[i].Repos[j]
			if r.FT == nil {
				r.FT = []string{}
			}
			if r.Changed == nil {
				r.Changed = []string{}
			}
			if r.Docs == nil {
				r.Docs = []c17Doc{}
			}
			for k := range r.Docs {
				if r.Docs[k].Words == nil {
					r.Docs[k].Words = []string{}
				}
			}
		}
	}
	var fq func(q *c17Query)
	fq = func(q *c17Query) {
		if q.S == nil {
			q.S = []uint32{}
		}
		if q.C == nil {
			q.C = []c17Query{}
		}
		for i := range q.C {
			fq(&q.C[i])
		}
	}
	for i := range c.Queries {
		fq(&c.Queries[i])
	}
}

func c17Desc(id uint32) zoekt.Repository {
	n := c17Name(id)
	return zoekt.Repository{
		ID:                   id,
		Name:                 n,
		URL:                  "http://c17.example/" + n,
		FileURLTemplate:      "http://c17.example/" + n + "/blob/{{.Version}}/{{.Path}}",
		LineFragmentTemplate: "#L{{.LineNumber}}",
		CommitURLTemplate:    "http://c17.example/" + n + "/commit/{{.Version}}",
		Branches:             []zoekt.RepositoryBranch{{Name: "main", Version: "v-" + n}},
	}
}

// Every (shard) builder allocates ~35 MB of posting tables; collecting right away lets the
// next one reuse the same pages (fresh pages are very slow to fault in on the check machines).
func c17Build(dir string, r c17Repo, delta bool) error {
	defer runtime.GC()
	opts := index.Options{IndexDir: dir, RepositoryDescription: c17Desc(r.ID), DisableCTags: true, IsDelta: delta, Parallelism: 1, ShardMax: 1 << 20}
	b, err := index.NewBuilder(opts)
	if err != nil {
		return err
	}
	if delta {
		for _, p := range r.Changed {
			b.MarkFileAsChangedOrRemoved(p)
		}
	}
	for _, d := range r.Docs {
		if err := b.Add(index.Document{Name: d.Name, Content: []byte(strings.Join(d.Words, "\n") + "\n"), Branches: []string{"main"}}); err != nil {
			return err
		}
	}
	return b.Finish()
}

// c17WriteFT records file tombstones in the sidecar of a simple shard the way Builder.Finish
// does for delta builds (single repository object, temp file + rename).
func c17WriteFT(shard string, ft []string) error {
	repos, _, err := index.ReadMetadataPath(shard)
	if err != nil {
		return err
	}
	if len(repos) != 1 {
		return fmt.Errorf("%s: %d repos", shard, len(repos))
	}
	repos[0].FileTombstones = map[string]struct{}{}
	for _, f := range ft {
		repos[0].FileTombstones[f] = struct{}{}
	}
	tmp, final, err := index.JsonMarshalRepoMetaTemp(shard, repos[0])
	if err != nil {
		return err
	}
	return os.Rename(tmp, final)
}

func c17Shards(dir string) []string {
	fs, _ := filepath.Glob(filepath.Join(dir, "*.zoekt"))
	sort.Strings(fs)
	return fs
}

func c17Merge(dir string, names []string) (string, error) {
	defer runtime.GC()
	var files []index.IndexFile
	for _, fn := range names {
		f, err := os.Open(fn)
		if err != nil {
			return "", err
		}
		defer f.Close()
		inf, err := index.NewIndexFile(f)
		if err != nil {
			return "", err
		}
		defer inf.Close()
		files = append(files, inf)
	}
	tmp, dst, err := index.Merge(dir, files...)
	if err != nil {
		return "", err
	}
	for _, fn := range names {
		ps, err := index.IndexFilePaths(fn)
		if err != nil {
			return "", err
		}
		for _, p := range ps {
			if err := os.Remove(p); err != nil {
				return "", err
			}
		}
	}
	return dst, os.Rename(tmp, dst)
}

// c17Materialize builds the corpus in dir and returns the shard paths in corpus order.
func c17Materialize(dir string, c *c17Corpus) ([]string, error) {
	paths := make([]string, len(c.Shards))
	switch c.Kind {
	case "delta":
		for k, sh := range c.Shards {
			if len(sh.Repos) != 1 {
				return nil, fmt.Errorf("delta build with %d repos", len(sh.Repos))
			}
			before := map[string]bool{}
			for _, p := range c17Shards(dir) {
				before[p] = true
			}
			if err := c17Build(dir, sh.Repos[0], k > 0); err != nil {
				return nil, fmt.Errorf("build %d: %w", k, err)
			}
			for _, p := range c17Shards(dir) {
				if !before[p] {
					paths[k] = p
				}
			}
			if paths[k] == "" && len(sh.Repos[0].Docs) > 0 {
				return nil, fmt.Errorf("build %d wrote no shard", k)
			}
		}
	default:
		// simple shards of the later corpus shards go to a side directory until the merge is done
		tmp := filepath.Join(dir, "in")
		if err := os.MkdirAll(tmp, 0o755); err != nil {
			return nil, err
		}
		for _, r := range c.Shards[0].Repos {
			if err := c17Build(tmp, r, false); err != nil {
				return nil, err
			}
			if len(r.FT) > 0 {
				opts := index.Options{IndexDir: tmp, RepositoryDescription: c17Desc(r.ID)}
				fs := opts.FindAllShards()
				if len(fs) != 1 {
					return nil, fmt.Errorf("repo %d: %d shards", r.ID, len(fs))
				}
				if err := c17WriteFT(fs[0], r.FT); err != nil {
					return nil, err
				}
			}
		}
		// merge in corpus order: all have priority 0, and sort.Slice on equal keys may permute;
		// the order inside the compound shard is irrelevant to the specification.
		dst, err := c17Merge(dir, c17Shards(tmp))
		if err != nil {
			return nil, err
		}
		os.RemoveAll(tmp)
		paths[0] = dst
		for k := 1; k < len(c.Shards); k++ {
			sh := c.Shards[k]
			if len(sh.Repos) != 1 {
				return nil, fmt.Errorf("extra shard %d must be simple", k)
			}
			if err := c17Build(dir, sh.Repos[0], false); err != nil {
				return nil, err
			}
			opts := index.Options{IndexDir: dir, RepositoryDescription: c17Desc(sh.Repos[0].ID)}
			fs := opts.FindAllShards()
			if len(fs) != 1 {
				return nil, fmt.Errorf("extra repo: %d shards", len(fs))
			}
			paths[k] = fs[0]
			if len(sh.Repos[0].FT) > 0 {
				if err := c17WriteFT(fs[0], sh.Repos[0].FT); err != nil {
					return nil, err
				}
			}
		}
	}
	return paths, nil
}

func c17HasTypeRepo(q c17Query) bool {
	if q.K == "trepo" {
		return true
	}
	for _, c := range q.C {
		if c17HasTypeRepo(c) {
			return true
		}
	}
	return false
}

func c17Real(q c17Query) query.Q {
	switch q.K {
	case "true":
		return &query.Const{Value: true}
	case "false":
		return &query.Const{Value: false}
	case "sub":
		return &query.Substring{Pattern: q.W, Content: true, CaseSensitive: true}
	case "fname":
		return &query.Substring{Pattern: q.W, FileName: true, CaseSensitive: true}
	case "repo":
		var alts []string
		for _, id := range q.S {
			alts = append(alts, c17Name(id))
		}
		if len(alts) == 0 {
			alts = []string{"nosuchrepo"}
		}
		return &query.Repo{Regexp: regexp.MustCompile("^(" + strings.Join(alts, "|") + ")$")}
	case "ids":
		return query.NewRepoIDs(q.S...)
	case "set":
		var names []string
		for _, id := range q.S {
			names = append(names, c17Name(id))
		}
		return query.NewRepoSet(names...)
	case "and", "or":
		var cs []query.Q
		for _, c := range q.C {
			cs = append(cs, c17Real(c))
		}
		if q.K == "and" {
			return &query.And{Children: cs}
		}
		return &query.Or{Children: cs}
	case "not":
		return &query.Not{Child: c17Real(q.C[0])}
	case "trepo":
		return &query.Type{Type: query.TypeRepo, Child: c17Real(q.C[0])}
	}
	panic("unknown query kind " + q.K)
}

type c17File struct {
	R uint32 `json:"r"` // RepositoryID
	N uint32 `json:"n"` // id derived from Repository (name)
	F string `json:"f"`
}

type c17Entry struct {
	At     int       `json:"at"`
	Q      int       `json:"q"`
	Skip   bool      `json:"skip"`
	Files  []c17File `json:"files"`
	URLs   []uint32  `json:"urls"`
	Frags  []uint32  `json:"frags"`
	Repos  []uint32  `json:"repos"`
	RNames []uint32  `json:"rnames"`
	RMap   []uint32  `json:"rmap"`
	N1     int       `json:"n1"`
	N2     int       `json:"n2"`
	Err    string    `json:"err"`
}

func c17SortIDs(xs []uint32) []uint32 {
	if xs == nil {
		xs = []uint32{}
	}
	sort.Slice(xs, func(i, j int) bool { return xs[i] < xs[j] })
	return xs
}

func c17Keys(m map[string]string) []uint32 {
	res := []uint32{}
	for k := range m {
		res = append(res, c17ID(k))
	}
	return c17SortIDs(res)
}

func c17Observe(s zoekt.Searcher, at, qi int, q c17Query) c17Entry {
	e := c17Entry{At: at, Q: qi, Files: []c17File{}, URLs: []uint32{}, Frags: []uint32{}, Repos: []uint32{}, RNames: []uint32{}, RMap: []uint32{}}
	if at > 0 && c17HasTypeRepo(q) {
		e.Skip = true
		return e
	}
	ctx := context.Background()
	rq := c17Real(q)
	if p := verifkit.Catch(func() {
		sr, err := s.Search(ctx, rq, &zoekt.SearchOptions{})
		if err != nil {
			e.Err = "search: " + err.Error()
			return
		}
		for _, f := range sr.Files {
			e.Files = append(e.Files, c17File{R: f.RepositoryID, N: c17ID(f.Repository), F: f.FileName})
		}
		sort.Slice(e.Files, func(i, j int) bool {
			a, b := e.Files[i], e.Files[j]
			if a.R != b.R {
				return a.R < b.R
			}
			if a.F != b.F {
				return a.F < b.F
			}
			return a.N < b.N
		})
		e.URLs = c17Keys(sr.RepoURLs)
		e.Frags = c17Keys(sr.LineFragments)
		rl, err := s.List(ctx, rq, &zoekt.ListOptions{Field: zoekt.RepoListFieldRepos})
		if err != nil {
			e.Err = "list: " + err.Error()
			return
		}
		for _, r := range rl.Repos {
			e.Repos = append(e.Repos, r.Repository.ID)
			e.RNames = append(e.RNames, c17ID(r.Repository.Name))
		}
		for id := range rl.ReposMap {
			e.RMap = append(e.RMap, id) // must stay empty in this mode
		}
		e.N1 = rl.Stats.Repos
		rl2, err := s.List(ctx, rq, &zoekt.ListOptions{Field: zoekt.RepoListFieldReposMap})
		if err != nil {
			e.Err = "list2: " + err.Error()
			return
		}
		rm := []uint32{}
		for id := range rl2.ReposMap {
			rm = append(rm, id)
		}
		for _, r := range rl2.Repos { // only entries without id belong here
			rm = append(rm, r.Repository.ID)
		}
		if len(e.RMap) > 0 {
			e.Err = "ReposMap filled in Repos mode"
		}
		e.RMap = rm
		e.N2 = rl2.Stats.Repos
	}); p != nil {
		e.Err = fmt.Sprintf("panic: %v", p)
	}
	c17SortIDs(e.Repos)
	c17SortIDs(e.RNames)
	c17SortIDs(e.RMap)
	return e
}

// c17Snapshot reloads every shard and the directory and projects all channels of all queries.
func c17Snapshot(dir string, paths []string, c *c17Corpus) ([]c17Entry, error) {
	var snap []c17Entry
	for k, p := range paths {
		if p == "" { // a delta build without documents writes no shard
			continue
		}
		f, err := os.Open(p)
		if err != nil {
			return nil, err
		}
		inf, err := index.NewIndexFile(f)
		if err != nil {
			f.Close()
			return nil, err
		}
		s, err := index.NewSearcher(inf)
		if err != nil {
			inf.Close()
			return nil, fmt.Errorf("load %s: %w", p, err)
		}
		for qi, q := range c.Queries {
			snap = append(snap, c17Observe(s, k+1, qi+1, q))
		}
		s.Close()
	}
	ds, err := search.NewDirectorySearcher(dir)
	if err != nil {
		return nil, err
	}
	for qi, q := range c.Queries {
		snap = append(snap, c17Observe(ds, 0, qi+1, q))
	}
	ds.Close()
	return snap, nil
}

// c17Leftovers counts files in dir that are neither a shard nor a sidecar of a shard.
func c17Leftovers(dir string) int {
	ents, _ := os.ReadDir(dir)
	n := 0
	for _, e := range ents {
		nm := e.Name()
		if strings.HasSuffix(nm, ".zoekt") || strings.HasSuffix(nm, ".zoekt.meta") {
			continue
		}
		n++
	}
	return n
}

type c17Run struct {
	tr    *verifkit.Trace
	mu    sync.Mutex
	snaps map[string]int
}

// snapID numbers distinct snapshots; the definition goes to the trace when first seen (always
// before the step that refers to it is written).
func (r *c17Run) snapID(snap []c17Entry) int {
	b, _ := json.Marshal(snap)
	r.mu.Lock()
	defer r.mu.Unlock()
	if id, ok := r.snaps[string(b)]; ok {
		return id
	}
	id := len(r.snaps) + 1
	r.snaps[string(b)] = id
	r.tr.Emit(verifkit.M{"ev": "snap", "n": id, "entries": snap})
	return id
}

func c17Apply(shard string, op c17Op) error {
	if op.Op == "set" {
		return index.SetTombstone(shard, op.ID)
	}
	return index.UnsetTombstone(shard, op.ID)
}

// c17Faulted runs the operation in a child process whose first rename system call fails.
func c17Faulted(t testing.TB, shard string, op c17Op) (reported string, injected int) {
	exe, err := os.Executable()
	if err != nil {
		t.Fatal(err)
	}
	res := shard + ".c17result"
	os.Remove(res)
	cmd := exec.Command("strace", "-f", "-qq", "-e", "trace=rename,renameat,renameat2",
		"-e", "inject=rename,renameat,renameat2:error=EIO:when=1",
		exe, "-test.run", "^TestVerif_C17_Child$", "-test.count=1")
	cmd.Env = append(os.Environ(), "C17_CHILD_SHARD="+shard, "C17_CHILD_OP="+op.Op,
		"C17_CHILD_ID="+strconv.Itoa(int(op.ID)), "C17_CHILD_RESULT="+res)
	var out bytes.Buffer
	cmd.Stdout, cmd.Stderr = &out, &out
	if err := cmd.Run(); err != nil {
		t.Fatalf("fault child: %v\n%s", err, out.String())
	}
	b, err := os.ReadFile(res)
	if err != nil {
		t.Fatalf("fault child wrote no result: %v\n%s", err, out.String())
	}
	os.Remove(res)
	return string(b), strings.Count(out.String(), "(INJECTED)")
}

// TestVerif_C17_Child performs one operation (inside strace) and records what it reported.
func TestVerif_C17_Child(t *testing.T) {
	shard := os.Getenv("C17_CHILD_SHARD")
	if shard == "" {
		t.Skip("child only")
	}
	id, _ := strconv.Atoi(os.Getenv("C17_CHILD_ID"))
	err := c17Apply(shard, c17Op{Op: os.Getenv("C17_CHILD_OP"), ID: uint32(id)})
	rep := "ok"
	if err != nil {
		rep = "err"
	}
	// written in place (no rename: the injection counts rename calls only)
	if werr := os.WriteFile(os.Getenv("C17_CHILD_RESULT"), []byte(rep), 0o644); werr != nil {
		t.Fatal(werr)
	}
}

// steps applies ops to shard `target`, observing after each; events are appended to out.
func (r *c17Run) steps(t testing.TB, dir string, paths []string, c *c17Corpus, target int, ops []c17Op, out *[]verifkit.M) {
	for _, op := range ops {
		reported, injected := "ok", 0
		if op.Fault {
			reported, injected = c17Faulted(t, paths[target-1], op)
		} else if err := c17Apply(paths[target-1], op); err != nil {
			reported = "err"
		}
		snap, err := c17Snapshot(dir, paths, c)
		if err != nil {
			t.Errorf("snapshot: %v", err)
			return
		}
		_, serr := os.Stat(paths[target-1] + ".meta")
		*out = append(*out, verifkit.M{"ev": "step", "op": op.Op, "id": op.ID, "shard": target, "fault": op.Fault,
			"injected": injected, "reported": reported, "snap": r.snapID(snap),
			"sidecar": serr == nil, "leftovers": c17Leftovers(dir)})
	}
}

func (r *c17Run) flush(evs []verifkit.M) {
	for _, e := range evs {
		r.tr.Emit(e)
	}
}

// corpus builds the scenario, announces it and observes the pristine state.
func (r *c17Run) corpus(t testing.TB, c *c17Corpus) (dir string, paths []string) {
	c17Fix(c)
	dir, err := os.MkdirTemp(os.Getenv("VERIF_WORK"), "c17d")
	if err != nil {
		t.Fatal(err)
	}
	paths, err = c17Materialize(dir, c)
	if err != nil {
		t.Fatalf("materialize: %v", err)
	}
	r.tr.Emit(verifkit.M{"ev": "corpus", "kind": c.Kind, "shards": c.Shards, "queries": c.Queries})
	snap, err := c17Snapshot(dir, paths, c)
	if err != nil {
		t.Fatalf("snapshot: %v", err)
	}
	r.tr.Emit(verifkit.M{"ev": "reset", "snap": r.snapID(snap), "leftovers": c17Leftovers(dir)})
	return dir, paths
}

// reset brings the compound shard back to its pristine state (no sidecar).
func c17Reset(dir string, paths []string, out *[]verifkit.M) {
	os.Remove(paths[0] + ".meta")
	ents, _ := os.ReadDir(dir)
	for _, e := range ents {
		if !strings.HasSuffix(e.Name(), ".zoekt") && !strings.HasSuffix(e.Name(), ".zoekt.meta") {
			os.Remove(filepath.Join(dir, e.Name()))
		}
	}
	*out = append(*out, verifkit.M{"ev": "reset", "snap": 0, "leftovers": c17Leftovers(dir)})
}

func c17CopyDir(t testing.TB, src string) (string, []string) {
	dst, err := os.MkdirTemp(os.Getenv("VERIF_WORK"), "c17w")
	if err != nil {
		t.Fatal(err)
	}
	ents, _ := os.ReadDir(src)
	for _, e := range ents {
		b, err := os.ReadFile(filepath.Join(src, e.Name()))
		if err != nil {
			t.Fatal(err)
		}
		if err := os.WriteFile(filepath.Join(dst, e.Name()), b, 0o644); err != nil {
			t.Fatal(err)
		}
	}
	return dst, c17Shards(dst)
}

// TestVerif_C17_Replay: the corpus and the operation sequences come from Tombstone.tla
// (first line: corpus and queries, then one script per line).  Scripts are independent
// (each starts from the pristine shard), so they are spread over a few workers, each with its
// own copy of the directory; events are written in script order.
func TestVerif_C17_Replay(t *testing.T) {
	raw := verifkit.ReadScripts(t)
	tr := verifkit.Open(t)
	defer tr.Close()
	log.SetOutput(io.Discard)
	r := &c17Run{tr: tr, snaps: map[string]int{}}
	var c c17Corpus
	if err := json.Unmarshal(raw[0], &c); err != nil {
		t.Fatal(err)
	}
	t0 := time.Now()
	dir, _ := r.corpus(t, &c)
	defer os.RemoveAll(dir)
	t.Logf("corpus built in %v", time.Since(t0))
	t0 = time.Now()
	defer func() { t.Logf("scripts replayed in %v", time.Since(t0)) }()
	scripts := raw[1:]
	bufs := make([][]verifkit.M, len(scripts))
	workers := verifkit.EnvInt("C17_WORKERS", 4)
	var wg sync.WaitGroup
	for w := 0; w < workers; w++ {
		wg.Add(1)
		go func(w int) {
			defer wg.Done()
			wdir, wpaths := c17CopyDir(t, dir)
			defer os.RemoveAll(wdir)
			for i := w; i < len(scripts); i += workers {
				var sc c17Script
				if err := json.Unmarshal(scripts[i], &sc); err != nil {
					t.Error(err)
					return
				}
				c17Reset(wdir, wpaths, &bufs[i])
				r.steps(t, wdir, wpaths, &c, 1, sc.Ops, &bufs[i])
			}
		}(w)
	}
	wg.Wait()
	for _, b := range bufs {
		r.flush(b)
	}
}

var c17Words = []string{"alpha", "bravo", "delta", "gamma", "kilo", "lima"}
var c17Names = []string{"fa.txt", "fb.txt", "dc/fd.go", "fe.md", "dc/ff.txt", "fg.c"}

func c17RandDocs(rng interface{ Intn(int) int }, min int) []c17Doc {
	n := min + rng.Intn(4)
	perm := []int{0, 1, 2, 3, 4, 5}
	for i := range perm {
		j := i + rng.Intn(len(perm)-i)
		perm[i], perm[j] = perm[j], perm[i]
	}
	docs := []c17Doc{}
	for i := 0; i < n && i < len(perm); i++ {
		d := c17Doc{Name: c17Names[perm[i]], Words: []string{}}
		for _, w := range c17Words {
			if rng.Intn(3) == 0 {
				d.Words = append(d.Words, w)
			}
		}
		docs = append(docs, d)
	}
	return docs
}

func c17RandQuery(rng interface{ Intn(int) int }, ids []uint32, depth int, allowType bool) c17Query {
	sub := func() []uint32 {
		s := []uint32{}
		for _, id := range ids {
			if rng.Intn(2) == 0 {
				s = append(s, id)
			}
		}
		if rng.Intn(6) == 0 {
			s = append(s, 99) // a repository that does not exist
		}
		if len(s) == 0 {
			s = append(s, ids[rng.Intn(len(ids))])
		}
		return s
	}
	k := rng.Intn(12)
	if depth == 0 && k >= 8 {
		k = rng.Intn(8)
	}
	switch k {
	case 0:
		return c17Query{K: "true"}
	case 1, 2:
		return c17Query{K: "sub", W: c17Words[rng.Intn(len(c17Words))]}
	case 3:
		return c17Query{K: "fname", W: c17Names[rng.Intn(len(c17Names))]}
	case 4:
		return c17Query{K: "repo", S: sub()}
	case 5:
		return c17Query{K: "ids", S: sub()}
	case 6:
		return c17Query{K: "set", S: sub()}
	case 7:
		return c17Query{K: "sub", W: "zulu"} // matches nothing, does not fold
	case 8, 9:
		kk := []string{"and", "or"}[rng.Intn(2)]
		q := c17Query{K: kk}
		for i, n := 0, 2+rng.Intn(2); i < n; i++ {
			q.C = append(q.C, c17RandQuery(rng, ids, depth-1, allowType))
		}
		return q
	case 10:
		return c17Query{K: "not", C: []c17Query{c17RandQuery(rng, ids, depth-1, allowType)}}
	default:
		if !allowType {
			return c17Query{K: "sub", W: c17Words[rng.Intn(len(c17Words))]}
		}
		return c17Query{K: "trepo", C: []c17Query{c17RandQuery(rng, ids, depth-1, false)}}
	}
}

// TestVerif_C17_Random: seeded random corpora (compound shard + optional simple shards, file
// tombstones, delta build chains), random operation histories, random queries.
func TestVerif_C17_Random(t *testing.T) {
	tr := verifkit.Open(t)
	defer tr.Close()
	log.SetOutput(io.Discard)
	n := verifkit.EnvInt("C17_SCENARIOS", verifkit.Pick(24, 300))
	for i := 0; i < n; i++ {
		rng := verifkit.Rng(int64(i))
		r := &c17Run{tr: tr, snaps: map[string]int{}}
		var c c17Corpus
		var ids []uint32
		if i%4 == 3 {
			// delta chain of one repository: later builds re-add changed paths and mark
			// changed-or-removed paths, which must disappear from all older shards
			c.Kind = "delta"
			ids = []uint32{1}
			builds := 2 + rng.Intn(3)
			for k := 0; k < builds; k++ {
				e := c17Repo{ID: 1}
				if k == 0 {
					e.Docs = c17RandDocs(rng, 3)
				} else {
					for _, nm := range c17Names {
						switch rng.Intn(5) {
						case 0: // changed or added
							d := c17Doc{Name: nm, Words: []string{}}
							for _, w := range c17Words {
								if rng.Intn(3) == 0 {
									d.Words = append(d.Words, w)
								}
							}
							e.Docs = append(e.Docs, d)
							e.Changed = append(e.Changed, nm)
						case 1: // removed
							e.Changed = append(e.Changed, nm)
						}
					}
				}
				c.Shards = append(c.Shards, c17Shard{Repos: []c17Repo{e}})
			}
		} else {
			c.Kind = "compound"
			nrepos := 2 + rng.Intn(4)
			var sh c17Shard
			for id := 1; id <= nrepos; id++ {
				e := c17Repo{ID: uint32(id), Docs: c17RandDocs(rng, 1)}
				switch rng.Intn(6) {
				case 0, 1:
					for _, d := range e.Docs {
						if rng.Intn(2) == 0 {
							e.FT = append(e.FT, d.Name)
						}
					}
				case 2: // listed (when the query folds to TRUE) but never found
					for _, d := range e.Docs {
						e.FT = append(e.FT, d.Name)
					}
				}
				sh.Repos = append(sh.Repos, e)
				ids = append(ids, uint32(id))
			}
			c.Shards = append(c.Shards, sh)
			for x := 0; x < rng.Intn(3); x++ {
				id := uint32(7 + x)
				e := c17Repo{ID: id, Docs: c17RandDocs(rng, 1)}
				if rng.Intn(4) == 0 {
					e.FT = append(e.FT, e.Docs[0].Name)
				}
				c.Shards = append(c.Shards, c17Shard{Repos: []c17Repo{e}})
				ids = append(ids, id)
			}
		}
		c.Queries = []c17Query{{K: "true"}, {K: "sub", W: "zulu"}, {K: "trepo", C: []c17Query{{K: "sub", W: c17Words[rng.Intn(6)]}}}}
		for k := 0; k < 9; k++ {
			c.Queries = append(c.Queries, c17RandQuery(rng, ids, 2, true))
		}
		dir, paths := r.corpus(t, &c)
		var evs []verifkit.M
		if c.Kind == "compound" {
			var ops []c17Op
			for k, l := 0, 4+rng.Intn(8); k < l; k++ {
				id := c.Shards[0].Repos[rng.Intn(len(c.Shards[0].Repos))].ID
				if rng.Intn(10) == 0 {
					id = 99 // not in the shard: no flag changes
				}
				ops = append(ops, c17Op{Op: []string{"set", "set", "unset"}[rng.Intn(3)], ID: id})
			}
			r.steps(t, dir, paths, &c, 1, ops, &evs)
		}
		r.flush(evs)
		os.RemoveAll(dir)
	}
}
