//go:build verif

package index_test

// C05: indexData.simplify against the repository metadata of real loaded shards.
//
// Shards are built with the real builder (compound ones with the real index.Merge, tombstones
// with the real index.SetTombstone) and loaded with index.NewSearcher.  Before the rewrites on a
// shard one "shard" event describes its repositories (name, id, branches, tombstone, raw-config
// flags, metadata) and the languages of its documents -- taken from the abstract corpus the
// shard was built from, not from the loaded shard.  Every rewrite is logged as
// {kind: "shard", before, after, atoms, back}; Trace_Rewrite.tla evaluates the repository-level
// atoms on every live repository from the shard event and quantifies over the rest.

import (
	"encoding/json"
	"fmt"
	"os"
	"path/filepath"
	"sort"
	"testing"

	"github.com/sourcegraph/zoekt"
	"github.com/sourcegraph/zoekt/index"
	"github.com/sourcegraph/zoekt/internal/verifkit"
	"github.com/sourcegraph/zoekt/internal/verifkit/corpus"
	"github.com/sourcegraph/zoekt/internal/verifkit/rewrite"
	"github.com/sourcegraph/zoekt/query"
)

type c05Shard struct {
	s     zoekt.Searcher
	event verifkit.M
	line  int // line of the shard event in the trace
}

// c05Load materialises a corpus and returns its loaded shards (by shard number, sorted).
func c05Load(t testing.TB, c *corpus.Corpus) ([]*c05Shard, func()) {
	tmp, err := os.MkdirTemp(os.Getenv("VERIF_WORK"), "c05corpus")
	if err != nil {
		t.Fatal(err)
	}
	paths, err := c05Materialise(c, tmp)
	if err != nil {
		t.Fatalf("materialise: %v", err)
	}
	perShard := map[int][]int{}
	for ri, r := range c.Repos {
		perShard[r.Shard] = append(perShard[r.Shard], ri)
	}
	var nums []int
	for sh := range paths {
		nums = append(nums, sh)
	}
	sort.Ints(nums)
	ev := c.Event()
	var res []*c05Shard
	var closers []func()
	for _, sh := range nums {
		ris := perShard[sh]
		f, err := os.Open(paths[sh])
		if err != nil {
			t.Fatal(err)
		}
		inf, err := index.NewIndexFile(f)
		if err != nil {
			t.Fatal(err)
		}
		s, err := index.NewSearcher(inf)
		if err != nil {
			t.Fatalf("NewSearcher: %v", err)
		}
		closers = append(closers, s.Close)
		repos := []verifkit.M{}
		langSet := map[string]bool{}
		for _, ri := range ris {
			repos = append(repos, ev["repos"].([]verifkit.M)[ri])
			for _, d := range c.Docs {
				if d.Repo == ri {
					langSet[d.Lang] = true
				}
			}
		}
		langs := []string{}
		for l := range langSet {
			langs = append(langs, l)
		}
		sort.Strings(langs)
		res = append(res, &c05Shard{s: s, event: verifkit.M{"ev": "shard", "cid": c.ID, "shard": sh, "repos": repos,
			"langs": langs, "compound": len(ris) > 1}})
	}
	return res, func() {
		for _, f := range closers {
			f()
		}
		os.RemoveAll(tmp)
	}
}

// c05Materialise is corpus.Materialise, except that a shard whose only repository is tombstoned
// is written as a compound shard with one member (index.SetTombstone writes the compound
// sidecar format, which a simple shard cannot be loaded with).
func c05Materialise(c *corpus.Corpus, dir string) (map[int]string, error) {
	byShard := map[int][]int{}
	for ri, r := range c.Repos {
		byShard[r.Shard] = append(byShard[r.Shard], ri)
	}
	res := map[int]string{}
	for sh, ris := range byShard {
		if len(ris) == 1 && !c.Repos[ris[0]].Tomb {
			p := filepath.Join(dir, fmt.Sprintf("s%02d_v16.00000.zoekt", sh))
			if err := c.WriteSimple(p, ris[0], nil); err != nil {
				return nil, err
			}
			res[sh] = p
			continue
		}
		tmp, err := os.MkdirTemp(dir, "parts")
		if err != nil {
			return nil, err
		}
		var files []index.IndexFile
		for k, ri := range ris {
			p := filepath.Join(tmp, fmt.Sprintf("p%02d_v16.00000.zoekt", k))
			if err := c.WriteSimple(p, ri, nil); err != nil {
				return nil, err
			}
			f, err := os.Open(p)
			if err != nil {
				return nil, err
			}
			inf, err := index.NewIndexFile(f)
			if err != nil {
				return nil, err
			}
			files = append(files, inf)
		}
		tmpName, dstName, err := index.Merge(dir, files...)
		for _, f := range files {
			f.Close()
		}
		if err != nil {
			return nil, fmt.Errorf("merge: %w", err)
		}
		if err := os.Rename(tmpName, dstName); err != nil {
			return nil, err
		}
		os.RemoveAll(tmp)
		for _, ri := range ris {
			if c.Repos[ri].Tomb {
				if err := index.SetTombstone(dstName, c.Repos[ri].ID); err != nil {
					return nil, err
				}
			}
		}
		res[sh] = dstName
	}
	return res, nil
}

type c05Run struct {
	tr      *verifkit.Trace
	n       int
	skipped int
}

func (r *c05Run) begin(sh *c05Shard) {
	r.tr.Emit(sh.event)
	sh.line = r.tr.Len()
}

func (r *c05Run) simplify(sh *c05Shard, q *corpus.Q) {
	var in query.Q
	if p := verifkit.Catch(func() { in = q.Zoekt() }); p != nil {
		return
	}
	s := rewrite.NewSer(nil)
	before := s.Tree(in)
	var out query.Q
	var err error
	p := verifkit.Catch(func() { out, err = index.VerifC05Simplify(sh.s, in) })
	back := r.tr.Len() + 1 - sh.line
	switch {
	case p != nil:
		r.tr.Emit(rewrite.Event("shard", s, before, nil, "panic", fmt.Sprint(p), back, in.String()))
	case err != nil:
		panic(err)
	default:
		after := s.Tree(out)
		if s.Bits(before, after) > rewrite.MaxBits {
			r.skipped++
			return
		}
		r.tr.Emit(rewrite.Event("shard", s, before, after, "ok", "", back, in.String()))
	}
	r.n++
}

// ---------------------------------------------------------------- the fixed repository pool

func c05Pool() []corpus.Repo {
	return []corpus.Repo{
		{Name: "org/alpha", ID: 1, Branches: []string{"main", "dev"}, Public: true, Meta: map[string]string{"license": "MIT"}},
		{Name: "org/beta", ID: 2, Branches: []string{"main"}, Fork: true},
		{Name: "lib/alpha2", ID: 3, Branches: []string{"main", "release/1"}, Public: true, Archived: true,
			Meta: map[string]string{"license": "Apache", "team": "search"}},
	}
}

var c05PoolLangs = [][]string{{"Go"}, {"C"}, {"Go", "Markdown"}}

// every non-empty subset of the pool, every subset of it tombstoned: each repository-level atom
// below meets every combination of {matching, non-matching, tombstoned} repositories
func c05Compositions() []*corpus.Corpus {
	pool := c05Pool()
	var res []*corpus.Corpus
	id := 0
	for mask := 1; mask < 8; mask++ {
		var members []int
		for k := 0; k < 3; k++ {
			if mask&(1<<k) != 0 {
				members = append(members, k)
			}
		}
		for tm := 0; tm < 1<<len(members); tm++ {
			id++
			c := &corpus.Corpus{ID: id}
			for j, k := range members {
				r := pool[k]
				r.Tomb = tm&(1<<j) != 0
				r.Shard = 0
				c.Repos = append(c.Repos, r)
				for li, l := range c05PoolLangs[k] {
					c.Docs = append(c.Docs, corpus.Doc{Repo: j, Name: fmt.Sprintf("d%d/f%d.txt", k, li),
						Content: fmt.Sprintf("content abc %d %d\nxyz\n", k, li), Branches: []int{li % len(r.Branches)}, Lang: l})
				}
			}
			res = append(res, c)
		}
	}
	return res
}

func c05RepoAtoms() []*corpus.Q {
	var res []*corpus.Q
	for _, p := range []string{"alpha", "^org/", "beta$", "nomatch", "", "a2|beta"} {
		res = append(res, &corpus.Q{T: "repo", Pat: p}, &corpus.Q{T: "reporegexp", Pat: p})
	}
	for _, n := range [][]string{{"org/alpha"}, {"org/beta"}, {"org/alpha", "lib/alpha2"}, {"org/alpha", "org/beta", "lib/alpha2"},
		{"no/such"}, {"org/beta", "no/such"}} {
		res = append(res, &corpus.Q{T: "reposet", Names: n})
	}
	for _, ids := range [][]uint32{{1}, {2}, {1, 3}, {1, 2, 3}, {999}, {2, 999}} {
		res = append(res, &corpus.Q{T: "repoids", IDs: ids})
	}
	for _, f := range []uint64{1, 2, 4, 8, 16, 32, 1 | 8, 1 | 16, 4 | 16, 1 | 2, 2 | 8 | 32, 1 | 8 | 16} {
		res = append(res, &corpus.Q{T: "rawconfig", Flags: f})
	}
	for _, m := range [][2]string{{"license", "MIT"}, {"license", "^A"}, {"license", "."}, {"team", "search"}, {"nokey", "x"}, {"team", "^$"}} {
		res = append(res, &corpus.Q{T: "meta", S: m[0], Pat: m[1]})
	}
	for _, br := range [][]corpus.BranchIDs{
		{{Branch: "main", IDs: []uint32{1}}}, {{Branch: "dev", IDs: []uint32{1, 2}}}, {{Branch: "main", IDs: []uint32{999}}},
		{{Branch: "release/1", IDs: []uint32{3}}, {Branch: "main", IDs: []uint32{2}}}, {{Branch: "nosuch", IDs: []uint32{1}}},
		{{Branch: "main"}, {Branch: "dev", IDs: []uint32{3}}},
	} {
		res = append(res, &corpus.Q{T: "branchesrepos", BR: br})
	}
	for _, l := range []string{"Go", "C", "Markdown", "Rust"} {
		res = append(res, &corpus.Q{T: "lang", S: l})
	}
	return res
}

func c05Copy(q *corpus.Q) *corpus.Q { c := *q; return &c }

// contexts around a repository-level atom x (p, f: document-level atoms)
func c05Contexts(x *corpus.Q, y *corpus.Q) []*corpus.Q {
	p := &corpus.Q{T: "substr", Pat: "abc", CT: true}
	f := &corpus.Q{T: "regex", Pat: "f[01]", FN: true}
	n := func(t string, sub ...*corpus.Q) *corpus.Q { return &corpus.Q{T: t, Sub: sub} }
	ty := func(k string, sub *corpus.Q) *corpus.Q { return &corpus.Q{T: "type", S: k, Sub: []*corpus.Q{sub}} }
	c := c05Copy
	return []*corpus.Q{
		c(x),
		n("not", c(x)),
		n("and", c(x), p),
		n("or", c(x), p),
		n("not", n("and", c(x), p)),
		ty("repo", n("and", c(x), p)),
		n("or", ty("filename", c(x)), f),
		n("and", n("boost", c(x)), n("not", c(y))),
		n("or", n("and", c(x), c(y)), n("and", n("not", c(x)), p)),
		n("and", n("or", c(x), c(y)), ty("filematch", n("or", p, f))),
		ty("repo", n("not", c(x))),
	}
}

func TestVerif_C05_Shards(t *testing.T) {
	tr := verifkit.Open(t)
	defer tr.Close()
	tr.Emit(corpus.FoldEvent())
	r := &c05Run{tr: tr}
	atoms := c05RepoAtoms()

	var scripts [][]rewrite.Tok
	if os.Getenv("VERIF_IN") != "" {
		for _, raw := range verifkit.ReadScripts(t) {
			var toks []rewrite.Tok
			if err := json.Unmarshal(raw, &toks); err != nil {
				t.Fatal(err)
			}
			scripts = append(scripts, toks)
		}
	}
	rng := verifkit.Rng(77)
	perm := rng.Perm(len(scripts))
	if limit := verifkit.EnvInt("C05_SHARD_SCRIPTS", 30000); len(perm) > limit {
		perm = perm[:limit] // thorough tier: a seeded sample of the trees (all of them go through query.Simplify in package query)
	}
	scriptsUsed := len(perm)
	comps := c05Compositions()
	perComp := 0
	if len(comps) > 0 {
		perComp = (scriptsUsed + len(comps) - 1) / len(comps)
	}
	next := 0
	for ci, c := range comps {
		shards, closeAll := c05Load(t, c)
		for _, sh := range shards {
			r.begin(sh)
			// (1) every repository-level atom in every context
			for ai, x := range atoms {
				y := atoms[(ai*7+ci+3)%len(atoms)]
				for _, q := range c05Contexts(x, y) {
					r.simplify(sh, q)
				}
			}
			// (2) TLC's trees with repository-level atoms at the leaves
			for k := 0; k < perComp && next < scriptsUsed; k++ {
				toks := scripts[perm[next]]
				next++
				a, b := atoms[rng.Intn(len(atoms))], atoms[rng.Intn(len(atoms))]
				if rng.Intn(3) == 0 {
					b = &corpus.Q{T: "substr", Pat: "abc"}
				}
				salt := rng.Intn(6)
				q, err := rewrite.Build(toks, func(class string, occ int) *corpus.Q {
					switch class {
					case "a":
						return c05Copy(a)
					case "b":
						return c05Copy(b)
					case "dT":
						return rewrite.DegenerateTrue(salt + occ)
					}
					return rewrite.DegenerateFalse(salt + occ)
				})
				if err != nil {
					t.Fatal(err)
				}
				r.simplify(sh, q)
			}
		}
		closeAll()
	}
	t.Logf("c05 shards: %d compositions, %d rewrites, %d skipped (too many atoms)", len(comps), r.n, r.skipped)
}

// seeded random corpora (simple and compound shards, tombstones) with random trees over atoms
// that refer to the corpus
func TestVerif_C05_ShardsRandom(t *testing.T) {
	tr := verifkit.Open(t)
	defer tr.Close()
	tr.Emit(corpus.FoldEvent())
	r := &c05Run{tr: tr}
	ncorp := verifkit.EnvInt("C05_CORPORA", verifkit.Pick(25, 250))
	nq := verifkit.EnvInt("C05_QUERIES", verifkit.Pick(60, 120))
	for ci := 0; ci < ncorp; ci++ {
		rng := verifkit.Rng(int64(5000 + ci))
		c := corpus.Gen(rng, ci+1, corpus.Profile{MaxRepos: 4, MaxDocs: 3, MaxLen: 12, Compound: true, Tombstones: true})
		if rng.Intn(3) == 0 {
			// tombstone one more repository (possibly the only one of a simple shard)
			c.Repos[rng.Intn(len(c.Repos))].Tomb = true
		}
		shards, closeAll := c05Load(t, c)
		g := &corpus.QGen{Rng: rng, C: c, Dir: true}
		for _, sh := range shards {
			r.begin(sh)
			for k := 0; k < nq; k++ {
				r.simplify(sh, g.Tree(2+rng.Intn(3)))
			}
		}
		closeAll()
	}
	t.Logf("c05 random shards: %d corpora, %d rewrites, %d skipped (too many atoms)", ncorp, r.n, r.skipped)
}
