//go:build verif

package index

import (
	"bytes"
	"encoding/json"
	"fmt"
	"strconv"
	"strings"
	"testing"

	"github.com/sourcegraph/zoekt"
	"github.com/sourcegraph/zoekt/internal/ctags"
	"github.com/sourcegraph/zoekt/internal/verifkit"
)

// C37: symbol ranges derived from ctags are always valid.
//
// A case is (content, list of ctags entries).  The real tagsToSections.Convert is run (one
// converter for the whole run, as parseSymbols reuses it), every output range is tagged with
// the number of the entry it came from (carried through Entry.Kind -> Symbol.Kind), then the
// real ShardBuilder.Add gets (content, ranges).  Everything is logged for Trace_Ctags.tla;
// the driver decides nothing.

type c37Entry struct {
	Line int   `json:"line"`
	Name []int `json:"name"`
}

type c37Script struct {
	Content []int      `json:"content"`
	Entries []c37Entry `json:"entries"`
}

type c37Range struct {
	S int `json:"s"`
	E int `json:"e"`
	K int `json:"k"`
}

func c37Str(cps []int) string {
	var sb strings.Builder
	for _, c := range cps {
		sb.WriteRune(rune(c))
	}
	return sb.String()
}

type c37Runner struct {
	tr    *verifkit.Trace
	conv  tagsToSections
	sb    *ShardBuilder
	ndocs int
	total int
}

func (r *c37Runner) builder(t testing.TB) *ShardBuilder {
	if r.sb == nil {
		sb, err := NewShardBuilder(&zoekt.Repository{Name: "c37"})
		if err != nil {
			t.Fatal(err)
		}
		r.sb = sb
		r.ndocs = 0
	}
	return r.sb
}

// flush writes the shard that holds the documents added so far: accepted documents must
// also make a writable shard.
func (r *c37Runner) flush() {
	if r.sb == nil || r.ndocs == 0 {
		r.sb = nil
		return
	}
	var buf bytes.Buffer
	errText := ""
	if p := verifkit.Catch(func() {
		if err := r.sb.Write(&buf); err != nil {
			errText = err.Error()
		}
	}); p != nil {
		errText = fmt.Sprintf("panic: %v", p)
	}
	r.tr.Emit(verifkit.M{"ev": "shard", "docs": r.ndocs, "err": errText})
	r.sb = nil
}

func (r *c37Runner) run(t testing.TB, sc c37Script) {
	content := []byte(c37Str(sc.Content))
	tags := make([]*ctags.Entry, 0, len(sc.Entries))
	names := make([]string, 0, len(sc.Entries))
	for k, e := range sc.Entries {
		n := c37Str(e.Name)
		names = append(names, n)
		tags = append(tags, &ctags.Entry{Name: n, Line: e.Line, Kind: strconv.Itoa(k + 1), Path: "f"})
	}
	var secs []DocumentSection
	var md []*zoekt.Symbol
	panicText := ""
	if p := verifkit.Catch(func() {
		var err error
		secs, md, err = r.conv.Convert(content, tags)
		if err != nil {
			panicText = "error: " + err.Error()
		}
	}); p != nil {
		panicText = fmt.Sprintf("panic: %v", p)
		// the reusable buffer may be in any state after a panic
		r.conv = tagsToSections{}
	}
	out := make([]c37Range, 0, len(secs))
	meta := len(secs) == len(md)
	if panicText == "" && meta {
		for i, s := range secs {
			k, err := strconv.Atoi(md[i].Kind)
			if err != nil || k < 1 || k > len(names) {
				meta = false
				k = 0
			} else if md[i].Sym != names[k-1] {
				meta = false
			}
			out = append(out, c37Range{S: int(s.Start), E: int(s.End), K: k})
		}
	}
	addText := ""
	if panicText == "" && len(secs) == len(md) {
		sb := r.builder(t)
		doc := Document{
			Name:            fmt.Sprintf("f%d.txt", r.total),
			Content:         append([]byte(nil), content...),
			Symbols:         append([]DocumentSection(nil), secs...),
			SymbolsMetaData: append([]*zoekt.Symbol(nil), md...),
		}
		if p := verifkit.Catch(func() {
			if err := sb.Add(doc); err != nil {
				addText = err.Error()
			}
		}); p != nil {
			addText = fmt.Sprintf("panic: %v", p)
			r.sb = nil
		}
		if addText == "" {
			r.ndocs++
		}
	}
	r.total++
	if sc.Entries == nil {
		sc.Entries = []c37Entry{}
	}
	for i := range sc.Entries {
		if sc.Entries[i].Name == nil {
			sc.Entries[i].Name = []int{}
		}
	}
	if sc.Content == nil {
		sc.Content = []int{}
	}
	r.tr.Emit(verifkit.M{"ev": "convert", "content": sc.Content, "entries": sc.Entries, "out": out,
		"panic": panicText, "add": addText, "meta": meta})
	if r.ndocs >= 4000 {
		r.flush()
	}
}

func TestVerif_C37_Replay(t *testing.T) {
	scripts := verifkit.ReadScripts(t)
	tr := verifkit.Open(t)
	defer tr.Close()
	r := &c37Runner{tr: tr}
	for _, raw := range scripts {
		var sc c37Script
		if err := json.Unmarshal(raw, &sc); err != nil {
			t.Fatal(err)
		}
		r.run(t, sc)
	}
	r.flush()
}

var c37Words = []string{"a", "ab", "abc", "é", "xé", "foo", "fo", "o", "日本", "b c", "Foo", "foo_bar", "bar"}

// seeded random cases: many entries (>= 13, beyond the insertion-sort threshold of sort.Sort
// used by ShardBuilder.Add), duplicates, empty names, names that are prefixes of others.
func TestVerif_C37_Random(t *testing.T) {
	tr := verifkit.Open(t)
	defer tr.Close()
	r := &c37Runner{tr: tr}
	n := verifkit.EnvInt("C37_RANDOM", verifkit.Pick(1500, 20000))
	for i := 0; i < n; i++ {
		rng := verifkit.Rng(int64(i))
		profile := rng.Intn(4) // 0 sparse, 1 normal, 2 dense (equal starts), 3 long
		nlines := 1 + rng.Intn(8)
		if profile >= 2 {
			nlines = 6 + rng.Intn(10)
		}
		if rng.Intn(40) == 0 {
			nlines = 0
		}
		lines := make([][]string, nlines)
		var sb strings.Builder
		for l := 0; l < nlines; l++ {
			nw := rng.Intn(5)
			if profile >= 2 {
				nw = 2 + rng.Intn(3)
			}
			if rng.Intn(6) == 0 {
				sb.WriteString(strings.Repeat(" ", 1+rng.Intn(3)))
			}
			for w := 0; w < nw; w++ {
				word := c37Words[rng.Intn(len(c37Words))]
				lines[l] = append(lines[l], word)
				sb.WriteString(word)
				if rng.Intn(5) != 0 {
					sb.WriteString(" ")
				}
			}
			if l < nlines-1 || rng.Intn(3) != 0 {
				sb.WriteString("\n")
			}
		}
		content := sb.String()
		nent := 13 + rng.Intn(30)
		if profile == 0 {
			nent = rng.Intn(13)
		}
		var ents []c37Entry
		for k := 0; k < nent; k++ {
			line := 1 + rng.Intn(nlines+1)
			switch rng.Intn(12) {
			case 0:
				line = 0
			case 1:
				line = nlines + 1 + rng.Intn(2)
			case 2:
				line = -1 - rng.Intn(3)
			}
			var name string
			switch x := rng.Intn(10); {
			case x < 2:
				name = ""
			case x < 8 && line >= 1 && line <= nlines && len(lines[line-1]) > 0:
				ws := lines[line-1]
				name = ws[rng.Intn(len(ws))]
				if profile == 2 && rng.Intn(2) == 0 {
					name = ws[0]
				}
			case x == 9 && rng.Intn(4) == 0:
				name = "a\nb"
			default:
				name = c37Words[rng.Intn(len(c37Words))]
			}
			ents = append(ents, c37Entry{Line: line, Name: verifkit.Runes(name)})
			if profile == 2 && line >= 1 && line <= nlines && rng.Intn(2) == 0 {
				// the empty name on the same line: a zero-length range at the line start
				ents = append(ents, c37Entry{Line: line, Name: []int{}})
			}
			if rng.Intn(8) == 0 && len(ents) > 0 {
				ents = append(ents, ents[rng.Intn(len(ents))]) // duplicate
			}
		}
		rng.Shuffle(len(ents), func(a, b int) {
			if rng.Intn(3) == 0 {
				ents[a], ents[b] = ents[b], ents[a]
			}
		})
		r.run(t, c37Script{Content: verifkit.Runes(content), Entries: ents})
	}
	r.flush()
}
