//go:build verif

package index

import (
	"fmt"

	"github.com/sourcegraph/zoekt"
	"github.com/sourcegraph/zoekt/query"
)

// C05 bridge: indexData.simplify is package-private; the driver (package index_test, which
// imports helpers that themselves import index) reaches it through this test-only name.

// VerifC05Simplify is (*indexData).simplify on a searcher returned by NewSearcher.
func VerifC05Simplify(s zoekt.Searcher, q query.Q) (query.Q, error) {
	d, ok := s.(*indexData)
	if !ok {
		return nil, fmt.Errorf("not a shard searcher: %T", s)
	}
	return d.simplify(q), nil
}
