//go:build verif

package corpus

import (
	"math/rand"
	"regexp/syntax"
	"sort"
	"unicode"

	"github.com/RoaringBitmap/roaring/v2"
	"github.com/grafana/regexp"

	"github.com/sourcegraph/zoekt/internal/verifkit"
	"github.com/sourcegraph/zoekt/query"
)

// Q is the abstract query tree shared by the driver (-> query.Q) and the specification (-> JSON).
type Q struct {
	T     string // and or not const substr regex symbol branch repo reporegexp reposet repoids branchesrepos lang meta filenameset rawconfig type boost
	Sub   []*Q
	B     bool     // const value, branch exact
	Pat   string   // substr pattern, branch pattern, regexp source
	FN    bool     // FileName
	CT    bool     // Content
	CS    bool     // CaseSensitive
	Names []string // reposet, filenameset
	IDs   []uint32 // repoids
	BR    []BranchIDs
	S     string // language, meta field, type kind (filename|filematch|repo)
	Flags uint64 // rawconfig
	RE    *syntax.Regexp // set by FromZoekt: the parsed regexp itself (Pat is then informative only)
}

type BranchIDs struct {
	Branch string
	IDs    []uint32
}

func bitmap(ids []uint32) *roaring.Bitmap {
	b := roaring.New()
	b.AddMany(ids)
	return b
}

// ParseRegexp parses like query.Parse does (Perl flags).
func ParseRegexp(p string) (*syntax.Regexp, error) { return syntax.Parse(p, syntax.Perl) }

// Zoekt converts to the real query type.
func (q *Q) Zoekt() query.Q {
	switch q.T {
	case "and":
		var ch []query.Q
		for _, s := range q.Sub {
			ch = append(ch, s.Zoekt())
		}
		return &query.And{Children: ch}
	case "or":
		var ch []query.Q
		for _, s := range q.Sub {
			ch = append(ch, s.Zoekt())
		}
		return &query.Or{Children: ch}
	case "not":
		return &query.Not{Child: q.Sub[0].Zoekt()}
	case "const":
		return &query.Const{Value: q.B}
	case "substr":
		return &query.Substring{Pattern: q.Pat, FileName: q.FN, Content: q.CT, CaseSensitive: q.CS}
	case "regex":
		re := q.RE
		if re == nil {
			var err error
			re, err = ParseRegexp(q.Pat)
			if err != nil {
				panic(err)
			}
		}
		return &query.Regexp{Regexp: re, FileName: q.FN, Content: q.CT, CaseSensitive: q.CS}
	case "symbol":
		return &query.Symbol{Expr: q.Sub[0].Zoekt()}
	case "branch":
		return &query.Branch{Pattern: q.Pat, Exact: q.B}
	case "repo":
		return &query.Repo{Regexp: regexp.MustCompile(q.Pat)}
	case "reporegexp":
		return &query.RepoRegexp{Regexp: regexp.MustCompile(q.Pat)}
	case "reposet":
		return query.NewRepoSet(q.Names...)
	case "repoids":
		return &query.RepoIDs{Repos: bitmap(q.IDs)}
	case "branchesrepos":
		br := &query.BranchesRepos{}
		for _, e := range q.BR {
			br.List = append(br.List, query.BranchRepos{Branch: e.Branch, Repos: bitmap(e.IDs)})
		}
		return br
	case "lang":
		return &query.Language{Language: q.S}
	case "meta":
		return &query.Meta{Field: q.S, Value: regexp.MustCompile(q.Pat)}
	case "filenameset":
		return query.NewFileNameSet(q.Names...)
	case "rawconfig":
		return query.RawConfig(q.Flags)
	case "type":
		t := map[string]uint8{"filematch": query.TypeFileMatch, "filename": query.TypeFileName, "repo": query.TypeRepo}[q.S]
		return &query.Type{Type: t, Child: q.Sub[0].Zoekt()}
	case "boost":
		return &query.Boost{Boost: 2, Child: q.Sub[0].Zoekt()}
	}
	panic("unknown query kind " + q.T)
}

// JSON serialises for the specification (every node has every field).
func (q *Q) JSON() M {
	sub := []M{}
	for _, s := range q.Sub {
		sub = append(sub, s.JSON())
	}
	br := []M{}
	for _, e := range q.BR {
		br = append(br, M{"branch": verifkit.Runes(e.Branch), "ids": u32s(e.IDs)})
	}
	m := M{"t": q.T, "sub": sub, "b": q.B, "pat": verifkit.Runes(q.Pat), "fn": q.FN, "ct": q.CT, "cs": q.CS,
		"names": strsRunes(q.Names), "ids": u32s(q.IDs), "br": br, "s": q.S,
		"flags": []bool{q.Flags&1 != 0, q.Flags&2 != 0, q.Flags&4 != 0, q.Flags&8 != 0, q.Flags&16 != 0, q.Flags&32 != 0},
		"re": M{"op": "empty", "sub": []M{}}}
	switch q.T {
	case "regex", "repo", "reporegexp", "meta":
		re := q.RE
		if re == nil {
			var err error
			re, err = ParseRegexp(q.Pat)
			if err != nil {
				panic(err)
			}
		}
		m["re"] = RegexJSON(re)
	}
	return m
}

func u32s(x []uint32) []uint32 {
	if x == nil {
		return []uint32{}
	}
	return x
}

// RegexJSON serialises a parsed regexp (the parser is trusted, the matcher is not).
// Literals become concatenations of single-rune literals; classes are listed positively, with
// neg=true when the class covers 0 and MaxRune (then cls lists the complement), which is also
// the rule deciding how a class is printed and therefore how (?i) applies to it.
func RegexJSON(re *syntax.Regexp) M {
	node := func(op string) M {
		return M{"op": op, "r": 0, "fold": false, "cls": [][]int{}, "neg": false, "min": 0, "max": 0, "greedy": true, "sub": []M{}}
	}
	subs := func() []M {
		r := []M{}
		for _, s := range re.Sub {
			r = append(r, RegexJSON(s))
		}
		return r
	}
	fold := re.Flags&syntax.FoldCase != 0
	greedy := re.Flags&syntax.NonGreedy == 0
	switch re.Op {
	case syntax.OpNoMatch:
		return node("nomatch")
	case syntax.OpEmptyMatch:
		return node("empty")
	case syntax.OpLiteral:
		if len(re.Rune) == 1 {
			n := node("lit")
			n["r"] = int(re.Rune[0])
			n["fold"] = fold
			return n
		}
		n := node("cat")
		ss := []M{}
		for _, r := range re.Rune {
			l := node("lit")
			l["r"] = int(r)
			l["fold"] = fold
			ss = append(ss, l)
		}
		n["sub"] = ss
		return n
	case syntax.OpCharClass:
		n := node("cc")
		rs := re.Rune
		var pairs [][]int
		if len(rs) > 2 && rs[0] == 0 && rs[len(rs)-1] == unicode.MaxRune {
			n["neg"] = true
			for i := 1; i+1 < len(rs); i += 2 {
				pairs = append(pairs, []int{int(rs[i]) + 1, int(rs[i+1]) - 1})
			}
		} else {
			for i := 0; i+1 < len(rs); i += 2 {
				pairs = append(pairs, []int{int(rs[i]), int(rs[i+1])})
			}
		}
		if pairs == nil {
			pairs = [][]int{}
		}
		n["cls"] = pairs
		return n
	case syntax.OpAnyCharNotNL:
		return node("anynl")
	case syntax.OpAnyChar:
		return node("any")
	case syntax.OpBeginLine:
		return node("bol")
	case syntax.OpEndLine:
		return node("eol")
	case syntax.OpBeginText:
		return node("bot")
	case syntax.OpEndText:
		return node("eot")
	case syntax.OpWordBoundary:
		return node("wb")
	case syntax.OpNoWordBoundary:
		return node("nwb")
	case syntax.OpCapture:
		n := node("cap")
		n["sub"] = subs()
		return n
	case syntax.OpStar, syntax.OpPlus, syntax.OpQuest:
		n := node(map[syntax.Op]string{syntax.OpStar: "star", syntax.OpPlus: "plus", syntax.OpQuest: "quest"}[re.Op])
		n["greedy"] = greedy
		n["sub"] = subs()
		return n
	case syntax.OpRepeat:
		n := node("rep")
		n["greedy"] = greedy
		n["min"] = re.Min
		n["max"] = re.Max
		n["sub"] = subs()
		return n
	case syntax.OpConcat:
		n := node("cat")
		n["sub"] = subs()
		return n
	case syntax.OpAlternate:
		n := node("alt")
		n["sub"] = subs()
		return n
	}
	panic("regexp op " + re.Op.String())
}

// ---------------------------------------------------------------- query generation

// QGen generates query trees over a corpus.
type QGen struct {
	Rng      *rand.Rand
	C        *Corpus
	Dir      bool // directory searcher: type:repo allowed
	NoRegex  bool
	MaxDepth int
}

func quoteLit(s string) string { return regexp.QuoteMeta(s) }

// RegexFor builds a regexp source around literal material from the corpus.
func (g *QGen) RegexFor(fromName bool) string {
	rng := g.Rng
	p := func() string { return quoteLit(g.C.PickPattern(rng, fromName)) }
	switch rng.Intn(16) {
	case 0:
		return p() + ".*" + p()
	case 1:
		return p() + "|" + p()
	case 2:
		return `\b` + p() + `\b`
	case 3:
		return "(" + p() + ")+"
	case 4:
		return p() + `\n` + p()
	case 5:
		return "^" + p()
	case 6:
		return p() + "$"
	case 7:
		return "(?m)^" + p()
	case 8:
		return p() + "[ab_]" + p()
	case 9:
		return p() + "[^a]"
	case 10:
		return "(?s)" + p() + ".*?" + p()
	case 11:
		return "(?i)" + p()
	case 12:
		return p() + "?" + p()
	case 13:
		return "(" + p() + "|" + p() + ")" + p()
	case 14:
		return p() + "{1,2}"
	default:
		return p() + "." + p()
	}
}

func (g *QGen) pickRepo() *Repo { return &g.C.Repos[g.Rng.Intn(len(g.C.Repos))] }

func (g *QGen) ids() []uint32 {
	var ids []uint32
	for _, r := range g.C.Repos {
		if g.Rng.Intn(2) == 0 {
			ids = append(ids, r.ID)
		}
	}
	if g.Rng.Intn(4) == 0 {
		ids = append(ids, 999)
	}
	sort.Slice(ids, func(i, j int) bool { return ids[i] < ids[j] })
	return ids
}

// Atom generates one leaf (or a unary wrapper around one).
func (g *QGen) Atom() *Q {
	rng := g.Rng
	scope := func(q *Q) *Q {
		switch rng.Intn(4) {
		case 0:
			q.FN = true
		case 1:
			q.CT = true
		case 2:
			q.FN, q.CT = true, true
		}
		q.CS = rng.Intn(2) == 0
		return q
	}
	switch x := rng.Intn(40); {
	case x < 12:
		fromName := rng.Intn(4) == 0
		return scope(&Q{T: "substr", Pat: g.C.PickPattern(rng, fromName)})
	case x < 18 && !g.NoRegex:
		fromName := rng.Intn(4) == 0
		return scope(&Q{T: "regex", Pat: g.RegexFor(fromName)})
	case x < 20:
		if rng.Intn(2) == 0 || g.NoRegex {
			return &Q{T: "symbol", Sub: []*Q{{T: "substr", Pat: g.C.PickSymbolPattern(rng), CT: true, CS: rng.Intn(2) == 0}}}
		}
		pat := []string{".*", quoteLit(g.C.PickPattern(rng, false)), "^" + quoteLit(g.C.PickPattern(rng, false)), quoteLit(g.C.PickPattern(rng, false)) + "$", "a.", "[ab]c"}[rng.Intn(6)]
		return &Q{T: "symbol", Sub: []*Q{{T: "regex", Pat: pat, CT: true, CS: rng.Intn(2) == 0}}}
	case x < 23:
		r := g.pickRepo()
		pat := r.Branches[rng.Intn(len(r.Branches))]
		if rng.Intn(3) == 0 {
			pat = []string{"HEAD", "a", "e", "main", "nosuch"}[rng.Intn(5)]
		}
		return &Q{T: "branch", Pat: pat, B: rng.Intn(2) == 0}
	case x < 25:
		return &Q{T: []string{"repo", "reporegexp"}[rng.Intn(2)], Pat: []string{"repo", "a$", "^org", "foo/ba", "B", "x|b"}[rng.Intn(6)]}
	case x < 27:
		var names []string
		for _, r := range g.C.Repos {
			if rng.Intn(2) == 0 {
				names = append(names, r.Name)
			}
		}
		if rng.Intn(3) == 0 {
			names = append(names, "no/such")
		}
		return &Q{T: "reposet", Names: names}
	case x < 29:
		return &Q{T: "repoids", IDs: g.ids()}
	case x < 31:
		q := &Q{T: "branchesrepos"}
		for k, n := 0, 1+rng.Intn(2); k < n; k++ {
			r := g.pickRepo()
			b := r.Branches[rng.Intn(len(r.Branches))]
			if rng.Intn(4) == 0 {
				b = "HEAD"
			}
			q.BR = append(q.BR, BranchIDs{Branch: b, IDs: g.ids()})
		}
		return q
	case x < 33:
		return &Q{T: "lang", S: append(langs, "Rust")[rng.Intn(len(langs)+1)]}
	case x < 35:
		return &Q{T: "meta", S: []string{"license", "team", "nokey"}[rng.Intn(3)], Pat: []string{"MIT", "^A", "a", "b$", "."}[rng.Intn(5)]}
	case x < 36:
		var names []string
		for _, d := range g.C.Docs {
			if rng.Intn(3) == 0 {
				names = append(names, d.Name)
			}
		}
		names = append(names, "zzz")
		return &Q{T: "filenameset", Names: names}
	case x < 38:
		return &Q{T: "rawconfig", Flags: []uint64{1, 2, 4, 8, 16, 32, 1 | 8, 2 | 16, 4 | 32}[rng.Intn(9)]}
	case x < 39:
		return &Q{T: "const", B: rng.Intn(2) == 0}
	default:
		return scope(&Q{T: "substr", Pat: g.C.PickPattern(rng, false)})
	}
}

// Tree generates a query tree of the given depth.
func (g *QGen) Tree(depth int) *Q {
	rng := g.Rng
	if depth <= 0 || rng.Intn(3) == 0 {
		return g.Atom()
	}
	switch x := rng.Intn(20); {
	case x < 7:
		q := &Q{T: "and"}
		for k, n := 0, 2+rng.Intn(2); k < n; k++ {
			q.Sub = append(q.Sub, g.Tree(depth-1))
		}
		return q
	case x < 13:
		q := &Q{T: "or"}
		for k, n := 0, 2+rng.Intn(2); k < n; k++ {
			q.Sub = append(q.Sub, g.Tree(depth-1))
		}
		return q
	case x < 16:
		return &Q{T: "not", Sub: []*Q{g.Tree(depth - 1)}}
	case x < 17:
		return &Q{T: "boost", Sub: []*Q{g.Tree(depth - 1)}}
	case x < 19:
		kinds := []string{"filename", "filematch"}
		if g.Dir {
			kinds = append(kinds, "repo")
		}
		return &Q{T: "type", S: kinds[rng.Intn(len(kinds))], Sub: []*Q{g.Tree(depth - 1)}}
	default:
		return g.Atom()
	}
}

// FromZoekt converts a real query tree (e.g. one produced by a rewrite) back to the abstract form.
func FromZoekt(q query.Q) *Q {
	subs := func(cs []query.Q) []*Q {
		var r []*Q
		for _, c := range cs {
			r = append(r, FromZoekt(c))
		}
		return r
	}
	ids := func(b *roaring.Bitmap) []uint32 {
		if b == nil {
			return nil
		}
		return b.ToArray()
	}
	switch v := q.(type) {
	case *query.And:
		return &Q{T: "and", Sub: subs(v.Children)}
	case *query.Or:
		return &Q{T: "or", Sub: subs(v.Children)}
	case *query.Not:
		return &Q{T: "not", Sub: []*Q{FromZoekt(v.Child)}}
	case *query.Const:
		return &Q{T: "const", B: v.Value}
	case *query.Substring:
		return &Q{T: "substr", Pat: v.Pattern, FN: v.FileName, CT: v.Content, CS: v.CaseSensitive}
	case *query.Regexp:
		return &Q{T: "regex", Pat: v.Regexp.String(), RE: v.Regexp, FN: v.FileName, CT: v.Content, CS: v.CaseSensitive}
	case *query.Symbol:
		return &Q{T: "symbol", Sub: []*Q{FromZoekt(v.Expr)}}
	case *query.Branch:
		return &Q{T: "branch", Pat: v.Pattern, B: v.Exact}
	case *query.Repo:
		return &Q{T: "repo", Pat: v.Regexp.String()}
	case *query.RepoRegexp:
		return &Q{T: "reporegexp", Pat: v.Regexp.String()}
	case *query.RepoSet:
		var names []string
		for n, ok := range v.Set {
			if ok {
				names = append(names, n)
			}
		}
		sort.Strings(names)
		return &Q{T: "reposet", Names: names}
	case *query.RepoIDs:
		return &Q{T: "repoids", IDs: ids(v.Repos)}
	case *query.BranchesRepos:
		r := &Q{T: "branchesrepos"}
		for _, e := range v.List {
			r.BR = append(r.BR, BranchIDs{Branch: e.Branch, IDs: ids(e.Repos)})
		}
		return r
	case *query.Language:
		return &Q{T: "lang", S: v.Language}
	case *query.Meta:
		return &Q{T: "meta", S: v.Field, Pat: v.Value.String()}
	case *query.FileNameSet:
		var names []string
		for n := range v.Set {
			names = append(names, n)
		}
		sort.Strings(names)
		return &Q{T: "filenameset", Names: names}
	case query.RawConfig:
		return &Q{T: "rawconfig", Flags: uint64(v)}
	case *query.Type:
		k := map[uint8]string{query.TypeFileMatch: "filematch", query.TypeFileName: "filename", query.TypeRepo: "repo"}[v.Type]
		return &Q{T: "type", S: k, Sub: []*Q{FromZoekt(v.Child)}}
	case *query.Boost:
		return &Q{T: "boost", Sub: []*Q{FromZoekt(v.Child)}}
	}
	panic("FromZoekt: unsupported node " + q.String())
}
