//go:build verif

// Package corpus: abstract corpora and queries shared by the search-semantics drivers
// (C01..C03, C10, C21, C22, C29, ...).  A corpus is generated abstractly, materialised as
// real shards with the real builder, and serialised for the TLA+ oracle (text as code points).
package corpus

import (
	"fmt"
	"math/rand"
	"os"
	"path/filepath"
	"sort"
	"strings"
	"unicode"

	"github.com/sourcegraph/zoekt"
	"github.com/sourcegraph/zoekt/index"
	"github.com/sourcegraph/zoekt/internal/verifkit"
)

type M = verifkit.M

// Repo is a repository as it appears in one shard.
type Repo struct {
	Name      string
	ID        uint32
	Branches  []string
	Tomb      bool
	Public    bool
	Fork      bool
	Archived  bool
	Meta      map[string]string
	FileTombs []string
	Shard     int // shard number; repos sharing a number form a compound shard
	Tenant    int
	Rank      uint16
	Prio      int // > 0: RawConfig "priority"; index.Merge puts repositories of higher priority first
}

// Doc is one document. Syms are [start,end) rune offsets into Content.
type Doc struct {
	Repo     int // index into Corpus.Repos
	Name     string
	Content  string
	Branches []int // indices into Repo.Branches
	Lang     string
	Syms     [][2]int
	SymKinds []string
	// ViaBuilder: the document goes through index.Builder (DocChecker) rather than straight
	// into a ShardBuilder: 1..2 byte contents are skipped as too small.
	ViaBuilder bool
}

type Corpus struct {
	ID    int
	Repos []Repo
	Docs  []Doc
}

const notIndexedBinary = "NOT-INDEXED: contains binary content"
const notIndexedSmall = "NOT-INDEXED: contains too few trigrams"

// Effective content: what the index stores (documents with a NUL byte are skipped).
func (d *Doc) Effective() string {
	if d.ViaBuilder && len(d.Content) > 0 && len(d.Content) < 3 {
		return notIndexedSmall
	}
	if strings.IndexByte(d.Content, 0) >= 0 {
		return notIndexedBinary
	}
	return d.Content
}

func (d *Doc) EffectiveSyms() [][2]int {
	if d.Effective() != d.Content {
		return nil
	}
	return d.Syms
}

// Alphabet of the search-semantics generators: runes whose ToLower image and SimpleFold
// orbit agree (C08 handles the rest).
var Alphabet = []rune{'a', 'b', 'c', 'A', 'B', '_', '1', ' ', '\n', '.', '(', 'é', 'ß', '中', '😀'}

// ExtraRunes can occur in names, markers and patterns.
var ExtraRunes = []rune("日本語NOT-INDEXED: contains binary content too few trigrams/dxyzZmtgoMDrepos0123456789hHEADvlkfuw-CcpbBi\r\tTXYKkSsIjJqQWFGLOPRUV")

// FoldEvent lists the case-fold orbits of all runes the generators use.
func FoldEvent() M {
	seen := map[rune]bool{}
	var orbits [][]int
	add := func(r rune) {
		if seen[r] {
			return
		}
		orb := []int{int(r)}
		seen[r] = true
		for f := unicode.SimpleFold(r); f != r; f = unicode.SimpleFold(f) {
			orb = append(orb, int(f))
			seen[f] = true
		}
		if len(orb) > 1 {
			sort.Ints(orb)
			orbits = append(orbits, orb)
		}
	}
	for _, r := range Alphabet {
		add(r)
	}
	for _, r := range ExtraRunes {
		add(r)
	}
	for r := rune(0); r < 128; r++ {
		add(r)
	}
	return M{"ev": "fold", "orbits": orbits}
}

func strsRunes(xs []string) [][]int {
	res := make([][]int, 0, len(xs))
	for _, x := range xs {
		res = append(res, verifkit.Runes(x))
	}
	return res
}

// Event serialises the corpus for the specification. All indices are 1-based.
func (c *Corpus) Event() M {
	repos := []M{}
	for _, r := range c.Repos {
		meta := []M{}
		keys := make([]string, 0, len(r.Meta))
		for k := range r.Meta {
			keys = append(keys, k)
		}
		sort.Strings(keys)
		for _, k := range keys {
			meta = append(meta, M{"k": k, "v": verifkit.Runes(r.Meta[k])})
		}
		repos = append(repos, M{
			"name": verifkit.Runes(r.Name), "id": r.ID, "branches": strsRunes(r.Branches), "tomb": r.Tomb,
			"public": r.Public, "fork": r.Fork, "archived": r.Archived, "meta": meta,
			"ftomb": strsRunes(r.FileTombs), "shard": r.Shard, "tenant": r.Tenant,
		})
	}
	docs := []M{}
	for _, d := range c.Docs {
		br := make([]int, 0, len(d.Branches))
		for _, b := range d.Branches {
			br = append(br, b+1)
		}
		syms := [][]int{}
		for _, s := range d.EffectiveSyms() {
			syms = append(syms, []int{s[0], s[1]})
		}
		docs = append(docs, M{
			"repo": d.Repo + 1, "name": verifkit.Runes(d.Name), "content": verifkit.Runes(d.Effective()),
			"branches": br, "lang": d.Lang, "syms": syms,
		})
	}
	return M{"ev": "corpus", "cid": c.ID, "repos": repos, "docs": docs}
}

// ---------------------------------------------------------------- materialisation

func (c *Corpus) ZoektRepo(ri int) *zoekt.Repository {
	r := c.Repos[ri]
	zr := &zoekt.Repository{
		Name: r.Name, ID: r.ID, TenantID: r.Tenant, Rank: r.Rank,
		RawConfig:            map[string]string{"repoid": fmt.Sprint(r.ID)},
		FileURLTemplate:      "https://example.com/" + r.Name + "/{{.Path}}",
		LineFragmentTemplate: "#L{{.LineNumber}}",
		URL:                  "https://example.com/" + r.Name,
	}
	if r.Tenant != 0 {
		zr.RawConfig["tenantID"] = fmt.Sprint(r.Tenant)
	}
	for i, b := range r.Branches {
		zr.Branches = append(zr.Branches, zoekt.RepositoryBranch{Name: b, Version: fmt.Sprintf("v%d-%d", ri, i)})
	}
	if r.Prio > 0 {
		zr.RawConfig["priority"] = fmt.Sprint(r.Prio)
	}
	if r.Public {
		zr.RawConfig["public"] = "1"
	}
	if r.Fork {
		zr.RawConfig["fork"] = "1"
	}
	if r.Archived {
		zr.RawConfig["archived"] = "1"
	}
	if len(r.Meta) > 0 {
		zr.Metadata = map[string]string{}
		for k, v := range r.Meta {
			zr.Metadata[k] = v
		}
	}
	if len(r.FileTombs) > 0 {
		zr.FileTombstones = map[string]struct{}{}
		for _, p := range r.FileTombs {
			zr.FileTombstones[p] = struct{}{}
		}
	}
	return zr
}

func runeToByte(s string, r int) uint32 {
	n := 0
	for i := range s {
		if n == r {
			return uint32(i)
		}
		n++
	}
	return uint32(len(s))
}

// IndexDoc converts a document for the builder.
func (c *Corpus) IndexDoc(d *Doc) index.Document {
	doc := index.Document{Name: d.Name, Content: []byte(d.Content), Language: d.Lang}
	for _, b := range d.Branches {
		doc.Branches = append(doc.Branches, c.Repos[d.Repo].Branches[b])
	}
	for i, s := range d.Syms {
		doc.Symbols = append(doc.Symbols, index.DocumentSection{Start: runeToByte(d.Content, s[0]), End: runeToByte(d.Content, s[1])})
		kind := "function"
		if i < len(d.SymKinds) {
			kind = d.SymKinds[i]
		}
		doc.SymbolsMetaData = append(doc.SymbolsMetaData, &zoekt.Symbol{Sym: d.Content[runeToByte(d.Content, s[0]):runeToByte(d.Content, s[1])], Kind: kind})
	}
	return doc
}

// WriteSimple writes one simple shard holding repo ri with its documents (in corpus order,
// or in the given order of document indices).
func (c *Corpus) WriteSimple(path string, ri int, order []int) error {
	b, err := index.NewShardBuilder(c.ZoektRepo(ri))
	if err != nil {
		return err
	}
	if order == nil {
		for di := range c.Docs {
			order = append(order, di)
		}
	}
	for _, di := range order {
		if c.Docs[di].Repo != ri {
			continue
		}
		if err := b.Add(c.IndexDoc(&c.Docs[di])); err != nil {
			return fmt.Errorf("add %q: %w", c.Docs[di].Name, err)
		}
	}
	f, err := os.Create(path)
	if err != nil {
		return err
	}
	defer f.Close()
	return b.Write(f)
}

// Materialise writes the corpus into dir: one simple shard per repository that is alone in its
// shard number, one compound shard (real index.Merge) per shard number with several
// repositories; tombstones of compound members via the real index.SetTombstone.
// Returns the shard paths by shard number.
func (c *Corpus) Materialise(dir string) (map[int]string, error) {
	byShard := map[int][]int{}
	for ri, r := range c.Repos {
		byShard[r.Shard] = append(byShard[r.Shard], ri)
	}
	res := map[int]string{}
	for sh, ris := range byShard {
		if len(ris) == 1 {
			p := filepath.Join(dir, fmt.Sprintf("s%02d_v16.00000.zoekt", sh))
			if err := c.WriteSimple(p, ris[0], nil); err != nil {
				return nil, err
			}
			res[sh] = p
			continue
		}
		tmp, err := os.MkdirTemp(dir, "parts")
		if err != nil {
			return nil, err
		}
		var files []index.IndexFile
		for k, ri := range ris {
			p := filepath.Join(tmp, fmt.Sprintf("p%02d_v16.00000.zoekt", k))
			if err := c.WriteSimple(p, ri, nil); err != nil {
				return nil, err
			}
			f, err := os.Open(p)
			if err != nil {
				return nil, err
			}
			inf, err := index.NewIndexFile(f)
			if err != nil {
				return nil, err
			}
			files = append(files, inf)
		}
		tmpName, dstName, err := index.Merge(dir, files...)
		for _, f := range files {
			f.Close()
		}
		if err != nil {
			return nil, fmt.Errorf("merge: %w", err)
		}
		if err := os.Rename(tmpName, dstName); err != nil {
			return nil, err
		}
		os.RemoveAll(tmp)
		for _, ri := range ris {
			if c.Repos[ri].Tomb {
				if err := index.SetTombstone(dstName, c.Repos[ri].ID); err != nil {
					return nil, err
				}
			}
		}
		res[sh] = dstName
	}
	return res, nil
}

// ---------------------------------------------------------------- generation

var nameVocab = []string{"a.go", "dir/b.txt", "x/y/Z.md", "main.c", "abc", "dir/abc.go", "aB_1.txt", "é中.md", "x/aaa.go", "README", "b/a/b.go", "AbA.c", "x/aß", "dir/maß"}
var langs = []string{"Go", "Markdown", "C", "Text"}
var repoNames = []string{"repo/a", "repo/b", "org/abc", "aBc", "x/é", "foo/bar", "foo/baz"}
var branchNames = []string{"HEAD", "main", "dev", "release/1", "ab"}

type Profile struct {
	MaxRepos   int
	MaxDocs    int
	MaxLen     int
	Long       bool // contents 95..305 runes
	Compound   bool
	Tombstones bool
	Binary     bool
	Symbols    bool
	OneShard   bool
}

func RandContent(rng *rand.Rand, n int) string {
	var sb strings.Builder
	// mix: random runes and repeated short motifs so that patterns have hits and near misses
	motifs := []string{"abc", "aab", "bca", "Abc", "a_1", "ab\nab", "ccc", "é中", "ßa", "b.(", "aaa", "abab"}
	for l := 0; l < n; {
		if rng.Intn(3) == 0 {
			m := motifs[rng.Intn(len(motifs))]
			sb.WriteString(m)
			l += len([]rune(m))
		} else {
			sb.WriteRune(Alphabet[rng.Intn(len(Alphabet))])
			l++
		}
	}
	return sb.String()
}

// Gen generates a corpus.
func Gen(rng *rand.Rand, id int, p Profile) *Corpus {
	c := &Corpus{ID: id}
	nrepos := 1 + rng.Intn(max(p.MaxRepos, 1))
	names := rng.Perm(len(repoNames))
	for i := 0; i < nrepos; i++ {
		r := Repo{Name: repoNames[names[i]], ID: uint32(10 + names[i]), Shard: i}
		nb := 1 + rng.Intn(3)
		bp := rng.Perm(len(branchNames))
		for k := 0; k < nb; k++ {
			r.Branches = append(r.Branches, branchNames[bp[k]])
		}
		r.Public, r.Fork, r.Archived = rng.Intn(2) == 0, rng.Intn(3) == 0, rng.Intn(3) == 0
		if rng.Intn(2) == 0 {
			r.Meta = map[string]string{"license": []string{"MIT", "Apache", "ab"}[rng.Intn(3)]}
			if rng.Intn(2) == 0 {
				r.Meta["team"] = []string{"search", "abc"}[rng.Intn(2)]
			}
		}
		r.Rank = uint16(rng.Intn(3) * 20000)
		c.Repos = append(c.Repos, r)
	}
	if p.OneShard {
		for i := range c.Repos {
			c.Repos[i].Shard = 0
		}
	} else if p.Compound && nrepos >= 2 {
		// put a random subset of >= 2 repos into one compound shard
		k := 2 + rng.Intn(nrepos-1)
		for i := 0; i < k; i++ {
			c.Repos[i].Shard = 0
		}
		if p.Tombstones && rng.Intn(2) == 0 {
			c.Repos[rng.Intn(k)].Tomb = true
		}
	}
	for ri := range c.Repos {
		nd := 1 + rng.Intn(max(p.MaxDocs, 1))
		used := map[string]bool{}
		for k := 0; k < nd; k++ {
			nm := nameVocab[rng.Intn(len(nameVocab))]
			n := rng.Intn(p.MaxLen + 1)
			if p.Long && rng.Intn(3) == 0 {
				n = 95 + rng.Intn(211)
			}
			if rng.Intn(9) == 0 {
				n = 0 // empty documents: no trigrams, no lines; first/last in a shard they sit at the posting-list edges
			}
			content := RandContent(rng, n)
			if rng.Intn(15) == 0 {
				// long runs of 4-byte runes with a marker every 25 of them: between two rune-offset samples
				// (every 100 runes) lie more than 3 bytes per rune, and some marker follows 80..99 such runes
				var sb strings.Builder
				for j := 0; j < 8; j++ {
					sb.WriteString(strings.Repeat("😀", 25))
					sb.WriteString(EmojiMarker(j))
				}
				content = sb.String() + content
			}
			if p.Binary && rng.Intn(12) == 0 {
				content += "\x00x"
			}
			d := Doc{Repo: ri, Name: nm, Content: content, Lang: langs[rng.Intn(len(langs))]}
			// documents are identified by (repository, name, stored content): skipped documents all
			// store the same marker text
			if used[nm+"\x00"+d.Effective()] {
				continue
			}
			used[nm+"\x00"+d.Effective()] = true
			nb := len(c.Repos[ri].Branches)
			for b := 0; b < nb; b++ {
				if rng.Intn(2) == 0 {
					d.Branches = append(d.Branches, b)
				}
			}
			if len(d.Branches) == 0 {
				d.Branches = []int{rng.Intn(nb)}
			}
			if p.Symbols {
				rs := []rune(content)
				pos := 0
				for pos < len(rs) && len(d.Syms) < 4 {
					// (adjacent sections, End == next Start, are legal and frequent here)
					start := pos + []int{0, 0, 0, 1, 2, 4}[rng.Intn(6)]
					l := 1 + rng.Intn(5)
					if start+l > len(rs) {
						break
					}
					// symbols are names: no NUL, no newline (ctags-derived sections lie on one line)
					if !strings.ContainsAny(string(rs[start:start+l]), "\x00\n") {
						d.Syms = append(d.Syms, [2]int{start, start + l})
						d.SymKinds = append(d.SymKinds, []string{"function", "class", "variable"}[rng.Intn(3)])
					}
					pos = start + l + []int{0, 0, 1, 2, 3}[rng.Intn(5)]
				}
			}
			c.Docs = append(c.Docs, d)
		}
		if p.Tombstones && rng.Intn(4) == 0 {
			// file tombstone on one of this repo's paths (hides all documents with that path)
			for _, d := range c.Docs {
				if d.Repo == ri {
					c.Repos[ri].FileTombs = []string{d.Name}
					break
				}
			}
		}
	}
	return c
}

// Substrings of the corpus (hits), mutated ones (near misses).
func (c *Corpus) PickPattern(rng *rand.Rand, fromName bool) string {
	if len(c.Docs) == 0 {
		return "abc"
	}
	for try := 0; try < 10; try++ {
		d := c.Docs[rng.Intn(len(c.Docs))]
		src := []rune(d.Effective())
		if fromName {
			src = []rune(d.Name)
		}
		if len(src) == 0 {
			continue
		}
		l := []int{1, 2, 3, 3, 4, 5, 6, 8}[rng.Intn(8)]
		if l > len(src) {
			l = len(src)
		}
		st := rng.Intn(len(src) - l + 1)
		p := append([]rune(nil), src[st:st+l]...)
		switch rng.Intn(6) {
		case 0: // near miss: mutate one rune
			p[rng.Intn(len(p))] = Alphabet[rng.Intn(len(Alphabet))]
		case 1: // another spelling of one rune: the next member of its fold orbit (a->A, ß->ẞ: the
			// UTF-8 length may change)
			k := rng.Intn(len(p))
			p[k] = OtherSpelling(p[k])
		}
		if strings.IndexByte(string(p), 0) >= 0 {
			continue
		}
		return string(p)
	}
	return "ab"
}

// EmojiMarker: the j-th marker inside the runs of 4-byte runes planted by Gen.
func EmojiMarker(j int) string { return "q" + string(rune('0'+j)) + "z" }

// OtherSpelling: the other member of a two-member fold orbit whose members lower-case to the same
// rune (a<->A, ß<->ẞ); for larger orbits (k/K/Kelvin, s/S/long s: property C08) the plain case flip.
func OtherSpelling(r rune) rune {
	f := unicode.SimpleFold(r)
	if unicode.SimpleFold(f) == r && unicode.ToLower(f) == unicode.ToLower(r) {
		return f
	}
	if unicode.IsUpper(r) {
		return unicode.ToLower(r)
	}
	return unicode.ToUpper(r)
}

// PickEdgePattern returns the last (or first) 1..4 runes of a document's content or name, each rune
// possibly replaced by the next member of its fold orbit: matches that end exactly at the end of
// the text, with a pattern whose byte length may differ from the matched text's.
func (c *Corpus) PickEdgePattern(rng *rand.Rand, fromName bool) string {
	if len(c.Docs) == 0 {
		return "ab"
	}
	var cand []int
	for i := range c.Docs {
		src := []rune(c.Docs[i].Effective())
		if fromName {
			src = []rune(c.Docs[i].Name)
		}
		if n := len(src); n > 0 && (src[n-1] >= 0x80 || src[0] >= 0x80) {
			cand = append(cand, i)
		}
	}
	d := c.Docs[rng.Intn(len(c.Docs))]
	if len(cand) > 0 && rng.Intn(3) > 0 {
		d = c.Docs[cand[rng.Intn(len(cand))]]
	}
	src := []rune(d.Effective())
	if fromName {
		src = []rune(d.Name)
	}
	if len(src) == 0 {
		return "ab"
	}
	l := min(1+rng.Intn(4), len(src))
	p := append([]rune(nil), src[len(src)-l:]...)
	if rng.Intn(4) == 0 {
		p = append([]rune(nil), src[:l]...)
	}
	for k := range p {
		if rng.Intn(2) == 0 && p[k] != 0 {
			p[k] = OtherSpelling(p[k])
		}
	}
	if strings.IndexByte(string(p), 0) >= 0 {
		return "ab"
	}
	return string(p)
}

// PickSymbolPattern returns text taken from a symbol section: the whole section, a prefix, a
// suffix or an inner part (so that matches end exactly at, or just inside, section bounds), or
// a text straddling a section boundary (must not match as a symbol).
func (c *Corpus) PickSymbolPattern(rng *rand.Rand) string {
	for try := 0; try < 20; try++ {
		d := c.Docs[rng.Intn(len(c.Docs))]
		syms := d.EffectiveSyms()
		if len(syms) == 0 {
			continue
		}
		rs := []rune(d.Effective())
		s := syms[rng.Intn(len(syms))]
		a, b := s[0], s[1]
		switch rng.Intn(6) {
		case 0, 1:
		case 2:
			b = a + 1 + rng.Intn(b-a)
		case 3:
			a = b - 1 - rng.Intn(b-a)
		case 4:
			if b < len(rs) {
				b++ // one rune past the section
			}
		case 5:
			if a > 0 {
				a--
			}
		}
		if a < b {
			return string(rs[a:b])
		}
	}
	return c.PickPattern(rng, false)
}

// DedupDocs drops documents that cannot be told apart through the API from an earlier one:
// same repository entry, name and stored content (e.g. two skipped documents with one name).
func (c *Corpus) DedupDocs() {
	seen := map[string]bool{}
	out := c.Docs[:0]
	for _, d := range c.Docs {
		k := fmt.Sprintf("%d\x00%s\x00%s", d.Repo, d.Name, d.Effective())
		if seen[k] {
			continue
		}
		seen[k] = true
		out = append(out, d)
	}
	c.Docs = out
}
