//go:build verif

package corpus

import (
	"fmt"
	"hash/crc64"
	"math"
	"sort"

	"github.com/sourcegraph/zoekt"
	"github.com/sourcegraph/zoekt/internal/verifkit"
)

var crcTab = crc64.MakeTable(crc64.ISO)

func docKey(repo string, id uint32, name string, sum []byte) string {
	return fmt.Sprintf("%s\x00%d\x00%s\x00%x", repo, id, name, sum)
}

// Index maps (repository, file name, checksum of the stored content) to document numbers (1-based).
func (c *Corpus) Index() map[string][]int {
	res := map[string][]int{}
	for i := range c.Docs {
		d := &c.Docs[i]
		h := crc64.New(crcTab)
		h.Write([]byte(d.Effective()))
		k := docKey(c.Repos[d.Repo].Name, c.Repos[d.Repo].ID, d.Name, h.Sum(nil))
		res[k] = append(res[k], i+1)
	}
	return res
}

// ScoreKey is an order-preserving integer triple for a finite float64 (21/21/22 bits).
func ScoreKey(f float64) []int {
	if math.IsNaN(f) || math.IsInf(f, 0) {
		return []int{-1, -1, -1}
	}
	b := math.Float64bits(f)
	if b>>63 != 0 {
		b = ^b
	} else {
		b |= 1 << 63
	}
	return []int{int(b >> 43), int((b >> 22) & (1<<21 - 1)), int(b & (1<<22 - 1))}
}

// Detail levels of the projection.
const (
	DetailFiles    = 0 // doc, branches
	DetailRanges   = 1 // + byte ranges
	DetailGeometry = 2 // + line numbers, texts, context, columns
)

// Files projects a search result. Files that cannot be attributed to a document of the corpus
// get doc = 0 (the specification rejects them). A document is identified by (repository, name,
// checksum, branch set) when several documents share the first three.
func (c *Corpus) Files(idx map[string][]int, res *zoekt.SearchResult, detail int) []M {
	out := []M{}
	for _, f := range res.Files {
		cands := idx[docKey(f.Repository, f.RepositoryID, f.FileName, f.Checksum)]
		doc := 0
		if len(cands) >= 1 {
			doc = cands[0]
		}
		var brs []int
		if doc > 0 {
			r := c.Repos[c.Docs[doc-1].Repo]
			for _, b := range f.Branches {
				k := 0
				for i, nm := range r.Branches {
					if nm == b {
						k = i + 1
					}
				}
				brs = append(brs, k)
			}
			if len(cands) > 1 {
				// same path and content on disjoint branch sets: pick by branch overlap
				for _, cd := range cands {
					for _, b := range c.Docs[cd-1].Branches {
						for _, x := range brs {
							if x == b+1 {
								doc = cd
							}
						}
					}
				}
			}
		}
		sort.Ints(brs)
		if brs == nil {
			brs = []int{}
		}
		m := M{"doc": doc, "branches": brs, "lang": f.Language, "repoid": f.RepositoryID, "score": ScoreKey(f.Score)}
		if detail >= DetailRanges {
			lms := []M{}
			for _, lm := range f.LineMatches {
				fr := [][]int{}
				for _, lf := range lm.LineFragments {
					fr = append(fr, []int{lf.LineOffset, int(lf.Offset), lf.MatchLength})
				}
				e := M{"num": lm.LineNumber, "start": lm.LineStart, "end": lm.LineEnd, "fn": lm.FileName, "frags": fr,
					"score": ScoreKey(lm.Score)}
				if detail >= DetailGeometry {
					e["line"] = verifkit.Runes(string(lm.Line))
					e["before"] = verifkit.Runes(string(lm.Before))
					e["after"] = verifkit.Runes(string(lm.After))
				}
				lms = append(lms, e)
			}
			cms := []M{}
			for _, cm := range f.ChunkMatches {
				rs := [][]int{}
				for _, r := range cm.Ranges {
					rs = append(rs, []int{int(r.Start.ByteOffset), int(r.Start.LineNumber), int(r.Start.Column),
						int(r.End.ByteOffset), int(r.End.LineNumber), int(r.End.Column)})
				}
				e := M{"sb": cm.ContentStart.ByteOffset, "sl": cm.ContentStart.LineNumber, "sc": cm.ContentStart.Column,
					"fn": cm.FileName, "ranges": rs, "best": cm.BestLineMatch, "score": ScoreKey(cm.Score),
					"clen": len(cm.Content)}
				if detail >= DetailGeometry {
					e["content"] = verifkit.Runes(string(cm.Content))
				}
				cms = append(cms, e)
			}
			m["lm"] = lms
			m["cm"] = cms
		}
		out = append(out, m)
	}
	return out
}
