//go:build verif

// Package rewrite (C05): what the drivers of the query-rewriting check share.  It lives in its
// own package because it imports query and index (through corpus); in-package drivers reach it
// through small bridge files.
//
//   - Ser projects REAL query trees (inputs and results of the rewrites) to the abstract trees
//     of spec/lib/RewriteSem.tla: inner nodes and/or/not/type/boost/const/scope, every other
//     node is an atom, numbered per event; the atom table carries the facts the specification
//     needs to give an atom its meaning (pattern, flags, sets, ids, regexp AST).
//   - Build turns a TLC script (prefix form of a tree over leaf classes) into an abstract
//     corpus.Q tree, the leaves being chosen by the driver.
package rewrite

import (
	"fmt"
	"regexp/syntax"
	"sort"
	"strings"

	"github.com/sourcegraph/zoekt/internal/verifkit"
	"github.com/sourcegraph/zoekt/internal/verifkit/corpus"
	"github.com/sourcegraph/zoekt/query"
)

type M = verifkit.M

// Tok is one token of a TLC script: kind and arity.
type Tok struct {
	K string `json:"k"`
	N int    `json:"n"`
}

// Build parses the prefix form. leaf(class, occurrence) supplies the atoms for the classes
// a, b, dT, dF (occurrence counts the leaves of that class from the left).
func Build(toks []Tok, leaf func(class string, occ int) *corpus.Q) (*corpus.Q, error) {
	pos := 0
	occ := map[string]int{}
	var rec func() (*corpus.Q, error)
	rec = func() (*corpus.Q, error) {
		if pos >= len(toks) {
			return nil, fmt.Errorf("script ends inside a tree")
		}
		t := toks[pos]
		pos++
		var sub []*corpus.Q
		for i := 0; i < t.N; i++ {
			c, err := rec()
			if err != nil {
				return nil, err
			}
			sub = append(sub, c)
		}
		switch t.K {
		case "a", "b", "dT", "dF":
			occ[t.K]++
			return leaf(t.K, occ[t.K]-1), nil
		case "T":
			return &corpus.Q{T: "const", B: true}, nil
		case "F":
			return &corpus.Q{T: "const", B: false}, nil
		case "and", "or":
			return &corpus.Q{T: t.K, Sub: sub}, nil
		case "not", "boost":
			return &corpus.Q{T: t.K, Sub: sub}, nil
		case "tfn":
			return &corpus.Q{T: "type", S: "filename", Sub: sub}, nil
		case "tfm":
			return &corpus.Q{T: "type", S: "filematch", Sub: sub}, nil
		case "trepo":
			return &corpus.Q{T: "type", S: "repo", Sub: sub}, nil
		}
		return nil, fmt.Errorf("unknown token %q", t.K)
	}
	q, err := rec()
	if err != nil {
		return nil, err
	}
	if pos != len(toks) {
		return nil, fmt.Errorf("script has %d trailing tokens", len(toks)-pos)
	}
	return q, nil
}

// DegenerateTrue / DegenerateFalse: the atoms the documentation (and Appendix A.2 of the design)
// calls always true / never true, in all their spellings.
func DegenerateTrue(k int) *corpus.Q {
	switch k % 6 {
	case 0:
		return &corpus.Q{T: "substr"}
	case 1:
		return &corpus.Q{T: "substr", FN: true, CS: true}
	case 2:
		return &corpus.Q{T: "regex", Pat: ""}
	case 3:
		return &corpus.Q{T: "regex", Pat: "", CT: true}
	case 4:
		return &corpus.Q{T: "branch"}
	default:
		return &corpus.Q{T: "branch", B: true}
	}
}

func DegenerateFalse(k int) *corpus.Q {
	switch k % 6 {
	case 0:
		return &corpus.Q{T: "branchesrepos"}
	case 1:
		return &corpus.Q{T: "branchesrepos", BR: []corpus.BranchIDs{{Branch: "HEAD"}, {Branch: "dev"}}}
	case 2:
		return &corpus.Q{T: "repoids"}
	case 3:
		return &corpus.Q{T: "reposet"}
	case 4:
		return &corpus.Q{T: "filenameset"}
	default:
		return &corpus.Q{T: "branchesrepos", BR: []corpus.BranchIDs{{Branch: "main"}}}
	}
}

// ---------------------------------------------------------------- projection of real trees

// Ser numbers the atoms of one event.
type Ser struct {
	// Unwrap recognises package-private wrapper nodes (query.caseScopeQ) for the in-package bridge.
	Unwrap func(query.Q) (child query.Q, ok bool)
	atoms  []M
	ids    map[string]int
	bases  map[string]int
}

func NewSer(unwrap func(query.Q) (query.Q, bool)) *Ser {
	return &Ser{Unwrap: unwrap, ids: map[string]int{}, bases: map[string]int{}}
}

// Atoms is the atom table: entry k-1 describes atom k.
func (s *Ser) Atoms() []M {
	if s.atoms == nil {
		return []M{}
	}
	return s.atoms
}

func node(t string, sub []M, b bool, kind string, a int) M {
	if sub == nil {
		sub = []M{}
	}
	return M{"t": t, "sub": sub, "b": b, "s": kind, "a": a}
}

func typeName(t uint8) string {
	switch t {
	case query.TypeFileMatch:
		return "filematch"
	case query.TypeFileName:
		return "filename"
	case query.TypeRepo:
		return "repo"
	}
	return fmt.Sprintf("unknown%d", t)
}

// Tree projects a real query tree.
func (s *Ser) Tree(q query.Q) M {
	if s.Unwrap != nil && q != nil {
		if c, ok := s.Unwrap(q); ok {
			return node("scope", []M{s.Tree(c)}, false, "", 0)
		}
	}
	list := func(qs []query.Q) []M {
		res := []M{}
		for _, c := range qs {
			res = append(res, s.Tree(c))
		}
		return res
	}
	switch v := q.(type) {
	case *query.And:
		return node("and", list(v.Children), false, "", 0)
	case *query.Or:
		return node("or", list(v.Children), false, "", 0)
	case *query.Not:
		return node("not", []M{s.Tree(v.Child)}, false, "", 0)
	case *query.Type:
		return node("type", []M{s.Tree(v.Child)}, false, typeName(v.Type), 0)
	case *query.Boost:
		return node("boost", []M{s.Tree(v.Child)}, false, "", 0)
	case *query.Const:
		return node("const", nil, v.Value, "", 0)
	}
	return node("atom", nil, false, "", s.atom(q))
}

func sortedKeys[V any](m map[string]V) []string {
	ks := make([]string, 0, len(m))
	for k := range m {
		ks = append(ks, k)
	}
	sort.Strings(ks)
	return ks
}

// describe: abstract description of a real atom (same fields as corpus.Q.JSON), the key that
// identifies it, and the key of the pattern it shares with its file-only / content-only forms.
func describe(q query.Q) (d *corpus.Q, re *syntax.Regexp, key, base string, size int) {
	switch v := q.(type) {
	case *query.Substring:
		d = &corpus.Q{T: "substr", Pat: v.Pattern, FN: v.FileName, CT: v.Content, CS: v.CaseSensitive}
		base = fmt.Sprintf("substr|%q|%v", v.Pattern, v.CaseSensitive)
		key = fmt.Sprintf("%s|%v|%v", base, v.FileName, v.Content)
		size = len(v.Pattern)
	case *query.Regexp:
		src := ""
		if v.Regexp != nil {
			src = v.RegexpString()
		}
		d = &corpus.Q{T: "regex", Pat: src, FN: v.FileName, CT: v.Content, CS: v.CaseSensitive}
		re = v.Regexp
		base = fmt.Sprintf("regex|%q|%v", src, v.CaseSensitive)
		if v.Regexp != nil {
			// two different trees can print alike (flags); the tree decides
			base += "|" + v.Regexp.Op.String() + fmt.Sprint(v.Regexp.Flags)
		}
		key = fmt.Sprintf("%s|%v|%v", base, v.FileName, v.Content)
	case *query.Symbol:
		_, _, k, _, _ := describe(v.Expr)
		d = &corpus.Q{T: "symbol"}
		key = "symbol|" + k
	case *query.Branch:
		d = &corpus.Q{T: "branch", Pat: v.Pattern, B: v.Exact}
		key = fmt.Sprintf("branch|%q|%v", v.Pattern, v.Exact)
		size = len(v.Pattern)
	case *query.Repo:
		d = &corpus.Q{T: "repo", Pat: v.Regexp.String()}
		key = fmt.Sprintf("repo|%q", d.Pat)
	case *query.RepoRegexp:
		d = &corpus.Q{T: "reporegexp", Pat: v.Regexp.String()}
		key = fmt.Sprintf("reporegexp|%q", d.Pat)
	case *query.RepoSet:
		d = &corpus.Q{T: "reposet"}
		for _, k := range sortedKeys(v.Set) {
			if v.Set[k] {
				d.Names = append(d.Names, k)
			}
		}
		key = fmt.Sprintf("reposet|%q|%d", d.Names, len(v.Set))
		size = len(v.Set)
	case *query.RepoIDs:
		d = &corpus.Q{T: "repoids"}
		if v.Repos != nil {
			d.IDs = v.Repos.ToArray()
		}
		key = fmt.Sprintf("repoids|%v", d.IDs)
		size = len(d.IDs)
	case *query.BranchesRepos:
		d = &corpus.Q{T: "branchesrepos"}
		for _, br := range v.List {
			e := corpus.BranchIDs{Branch: br.Branch}
			if br.Repos != nil {
				e.IDs = br.Repos.ToArray()
			}
			d.BR = append(d.BR, e)
			size += len(e.IDs)
		}
		key = fmt.Sprintf("branchesrepos|%v", d.BR)
	case *query.Language:
		d = &corpus.Q{T: "lang", S: v.Language}
		key = fmt.Sprintf("lang|%q", v.Language)
	case *query.Meta:
		d = &corpus.Q{T: "meta", S: v.Field, Pat: v.Value.String()}
		key = fmt.Sprintf("meta|%q|%q", v.Field, d.Pat)
	case *query.FileNameSet:
		d = &corpus.Q{T: "filenameset", Names: sortedKeys(v.Set)}
		key = fmt.Sprintf("filenameset|%q", d.Names)
		size = len(v.Set)
	case query.RawConfig:
		d = &corpus.Q{T: "rawconfig", Flags: uint64(v)}
		key = fmt.Sprintf("rawconfig|%d", uint64(v))
	default:
		d = &corpus.Q{T: "unknown", S: fmt.Sprintf("%T", q)}
		key = fmt.Sprintf("unknown|%T|%v", q, q)
	}
	return d, re, key, base, size
}

func (s *Ser) atom(q query.Q) int {
	if q == nil {
		if id, ok := s.ids["nil"]; ok {
			return id
		}
		m := (&corpus.Q{T: "unknown", S: "nil"}).JSON()
		m["id"], m["base"], m["n"] = len(s.atoms)+1, 0, 0
		s.atoms = append(s.atoms, m)
		s.ids["nil"] = len(s.atoms)
		return len(s.atoms)
	}
	d, re, key, base, size := describe(q)
	if id, ok := s.ids[key]; ok {
		return id
	}
	t := d.T
	if t == "regex" {
		d.T = "substr" // JSON() would re-parse the printed pattern; the real tree is serialised below
	}
	m := d.JSON()
	m["t"] = t
	if t == "regex" {
		if re != nil {
			m["re"] = corpus.RegexJSON(re)
		} else {
			m["re"] = M{"op": "nil", "sub": []M{}}
		}
	}
	m = slim(m, t)
	id := len(s.atoms) + 1
	b := 0
	if base != "" {
		var ok bool
		if b, ok = s.bases[base]; !ok {
			b = len(s.bases) + 1
			s.bases[base] = b
		}
	}
	m["id"], m["base"], m["n"] = id, b, size
	s.atoms = append(s.atoms, m)
	s.ids[key] = id
	return id
}

// slim keeps the fields the specification reads for an atom of kind t (the trace is large).
func slim(m M, t string) M {
	keep := map[string][]string{
		"substr": {"pat", "fn", "ct", "cs"}, "regex": {"pat", "fn", "ct", "cs", "re"}, "branch": {"pat", "b"},
		"repo": {"pat", "re"}, "reporegexp": {"pat", "re"}, "reposet": {"names"}, "filenameset": {"names"}, "repoids": {"ids"},
		"branchesrepos": {"br"}, "lang": {"s"}, "meta": {"s", "pat", "re"}, "rawconfig": {"flags"}, "symbol": {"s"}, "unknown": {"s"},
	}[t]
	res := M{"t": t}
	for _, k := range keep {
		res[k] = m[k]
	}
	if t == "regex" {
		// only the top-level operator matters (is it the empty match)
		res["re"] = M{"op": m["re"].(M)["op"]}
	}
	return res
}

// Bits is the number of truth values the specification will quantify over for the given
// trees: two per substring/regexp pattern and one per other atom, times two documents when a
// type:repo node occurs.
func (s *Ser) Bits(trees ...M) int {
	n := 2 * len(s.bases)
	for _, a := range s.atoms {
		if a["base"].(int) == 0 {
			n++
		}
	}
	var hasRepo func(M) bool
	hasRepo = func(t M) bool {
		if t["t"] == "type" && t["s"] == "repo" {
			return true
		}
		for _, c := range t["sub"].([]M) {
			if hasRepo(c) {
				return true
			}
		}
		return false
	}
	for _, t := range trees {
		if t != nil && hasRepo(t) {
			return 2 * n
		}
	}
	return n
}

// MaxBits bounds the valuations per event (2^MaxBits).
const MaxBits = 10

// Event assembles one rewrite event. back: distance (in lines) to the shard event describing
// the repository metadata the rewrite used, 0 when there is none.
func Event(kind string, s *Ser, before, after M, outcome, note string, back int, src string) M {
	if after == nil {
		after = node("const", nil, false, "", 0)
	}
	return M{"ev": "rewrite", "kind": kind, "before": before, "after": after, "atoms": s.Atoms(),
		"outcome": outcome, "note": note, "back": back, "src": src}
}

// Show renders an abstract tree for reports.
func Show(q *corpus.Q) string {
	if q == nil {
		return "<nil>"
	}
	var sb strings.Builder
	sb.WriteString(q.Zoekt().String())
	return sb.String()
}
