//go:build verif

package verifkit

// Quiescence detection for the schedule drivers (C31 indexMutex, C20 scheduler): the driver
// runs one goroutine per model process and needs to know when all of them are parked (in a
// lock, a semaphore, or on the driver's own gate) before it reads the observable state.
// The runtime's goroutine dump is the observation: it is taken with the world stopped, and
// every wake-up used by the code under test (mutex/rwmutex semaphores, channel close/send,
// context cancellation) marks the woken goroutine runnable inside the waking call, so
// "every process goroutine is in a wait state, twice in a row, and nothing was counted in
// between" is a fixpoint and not a guess based on elapsed time.

import (
	"bytes"
	"runtime"
	"strconv"
	"strings"
	"time"
)

// QGoID returns the id of the calling goroutine.
func QGoID() int64 {
	var buf [64]byte
	n := runtime.Stack(buf[:], false)
	// "goroutine 123 [running]:"
	f := bytes.Fields(buf[:n])
	if len(f) < 2 {
		return -1
	}
	id, err := strconv.ParseInt(string(f[1]), 10, 64)
	if err != nil {
		return -1
	}
	return id
}

// QState is what the goroutine dump says about one goroutine.
type QState struct {
	State string // "chan receive", "select", "sync.RWMutex.Lock", "running", ...; "" = gone
	Where string // first frame that is not in package runtime / internal/*
}

var qBlocked = map[string]bool{
	"chan receive": true, "chan send": true, "select": true, "semacquire": true,
	"sync.Mutex.Lock": true, "sync.RWMutex.RLock": true, "sync.RWMutex.Lock": true,
	"sync.Cond.Wait": true, "sync.WaitGroup.Wait": true,
}

// Parked reports whether the goroutine is blocked in a synchronisation primitive (or gone).
func (s QState) Parked() bool { return s.State == "" || qBlocked[s.State] }

var qBuf = make([]byte, 1<<20)

// QSnapshot returns the state of the given goroutines (not safe for concurrent use).
func QSnapshot(ids []int64) map[int64]QState {
	for {
		n := runtime.Stack(qBuf, true)
		if n < len(qBuf) {
			return qParse(qBuf[:n], ids)
		}
		qBuf = make([]byte, 2*len(qBuf))
	}
}

func qParse(dump []byte, ids []int64) map[int64]QState {
	want := make(map[int64]bool, len(ids))
	for _, id := range ids {
		want[id] = true
	}
	res := make(map[int64]QState, len(ids))
	for _, blk := range strings.Split(string(dump), "\n\n") {
		if !strings.HasPrefix(blk, "goroutine ") {
			continue
		}
		sp := strings.IndexByte(blk[10:], ' ')
		if sp < 0 {
			continue
		}
		id, err := strconv.ParseInt(blk[10:10+sp], 10, 64)
		if err != nil || !want[id] {
			continue
		}
		lb := strings.IndexByte(blk, '[')
		rb := strings.IndexByte(blk, ']')
		if lb < 0 || rb < lb {
			continue
		}
		st := blk[lb+1 : rb]
		if c := strings.IndexByte(st, ','); c >= 0 {
			st = st[:c]
		}
		where := ""
		lines := strings.Split(blk, "\n")
		for i := 1; i < len(lines); i += 2 {
			fn := lines[i]
			if p := strings.LastIndexByte(fn, '('); p > 0 {
				fn = fn[:p]
			}
			if strings.HasPrefix(fn, "runtime.") || strings.HasPrefix(fn, "internal/") || strings.HasPrefix(fn, "sync.runtime_") {
				continue
			}
			where = fn
			break
		}
		res[id] = QState{State: st, Where: where}
	}
	return res
}

// QWait polls until all goroutines in ids are parked in two consecutive dumps between which
// progress() (a counter of everything the driver counts: acknowledged commands, entered
// bodies, returned calls) did not change.  ok=false after the (generous) timeout: the caller
// must treat that as inconclusive, never as a verdict.
func QWait(ids []int64, progress func() int64, timeout time.Duration) (map[int64]QState, bool) {
	deadline := time.Now().Add(timeout)
	var prev int64 = -1
	stable := 0
	for spin := 0; ; spin++ {
		before := progress()
		snap := QSnapshot(ids)
		all := true
		for _, id := range ids {
			if !snap[id].Parked() {
				all = false
				break
			}
		}
		if all && progress() == before && (stable == 0 || before == prev) {
			stable++
			prev = before
			if stable >= 2 {
				return snap, true
			}
		} else {
			stable = 0
		}
		if time.Now().After(deadline) {
			return snap, false
		}
		if spin < 50 {
			runtime.Gosched()
		} else {
			time.Sleep(50 * time.Microsecond)
		}
	}
}
