//go:build verif

// Package verifkit is compiled into the zoekt module only through `go test -overlay` with the
// build tag verif.  It holds what the conformance drivers share: trace output (ndjson read by
// the Trace_*.tla specifications), seeds, tiers and script input.  Standard library only.
package verifkit

import (
	"bufio"
	"encoding/json"
	"math/rand"
	"os"
	"strconv"
	"sync"
	"testing"
)

// Seed returns VERIF_SEED (default 1).
func Seed() int64 {
	if s := os.Getenv("VERIF_SEED"); s != "" {
		if n, err := strconv.ParseInt(s, 10, 64); err == nil {
			return n
		}
	}
	return 1
}

// Thorough reports whether VERIF_TIER=thorough.
func Thorough() bool { return os.Getenv("VERIF_TIER") == "thorough" }

// Pick returns q in the quick tier and t in the thorough tier.
func Pick(q, t int) int {
	if Thorough() {
		return t
	}
	return q
}

// EnvInt reads an integer parameter passed by the python side.
func EnvInt(name string, def int) int {
	if s := os.Getenv(name); s != "" {
		if n, err := strconv.Atoi(s); err == nil {
			return n
		}
	}
	return def
}

// Rng is a deterministic generator derived from the seed and a stream id.
func Rng(stream int64) *rand.Rand { return rand.New(rand.NewSource(Seed()*1000003 + stream)) }

// M is one trace event or one script step.
type M = map[string]any

// Trace writes ndjson events.  Safe for concurrent use; events are ordered by the lock.
type Trace struct {
	mu sync.Mutex
	f  *os.File
	w  *bufio.Writer
	n  int
}

// Open creates the trace file named by VERIF_OUT (or the given env variable).
func Open(t testing.TB, env ...string) *Trace {
	name := "VERIF_OUT"
	if len(env) > 0 {
		name = env[0]
	}
	p := os.Getenv(name)
	if p == "" {
		t.Skip(name + " not set: verification drivers only run under /verif/bin/check")
	}
	f, err := os.Create(p)
	if err != nil {
		t.Fatal(err)
	}
	return &Trace{f: f, w: bufio.NewWriterSize(f, 1<<20)}
}

// Emit appends one event.
func (tr *Trace) Emit(ev M) {
	b, err := json.Marshal(ev)
	if err != nil {
		panic(err)
	}
	tr.mu.Lock()
	tr.w.Write(b)
	tr.w.WriteByte('\n')
	tr.n++
	tr.mu.Unlock()
}

// Len is the number of events written so far.
func (tr *Trace) Len() int { tr.mu.Lock(); defer tr.mu.Unlock(); return tr.n }

// Close flushes the trace.
func (tr *Trace) Close() {
	tr.mu.Lock()
	defer tr.mu.Unlock()
	tr.w.Flush()
	tr.f.Close()
}

// ReadScripts reads the ndjson file named by VERIF_IN: one JSON value per line.
func ReadScripts(t testing.TB, env ...string) []json.RawMessage {
	name := "VERIF_IN"
	if len(env) > 0 {
		name = env[0]
	}
	p := os.Getenv(name)
	if p == "" {
		t.Skip(name + " not set")
	}
	f, err := os.Open(p)
	if err != nil {
		t.Fatal(err)
	}
	defer f.Close()
	var res []json.RawMessage
	sc := bufio.NewScanner(f)
	sc.Buffer(make([]byte, 1<<20), 1<<28)
	for sc.Scan() {
		if len(sc.Bytes()) == 0 {
			continue
		}
		res = append(res, append(json.RawMessage(nil), sc.Bytes()...))
	}
	if err := sc.Err(); err != nil {
		t.Fatal(err)
	}
	return res
}

// Runes converts a string to the code-point list the specification works on.
func Runes(s string) []int {
	res := make([]int, 0, len(s))
	for _, r := range s {
		res = append(res, int(r))
	}
	return res
}

// Catch runs f and reports a panic as a value instead of unwinding.
func Catch(f func()) (panicked any) {
	defer func() {
		if r := recover(); r != nil {
			panicked = r
		}
	}()
	f()
	return nil
}
