//go:build verif

// Package ingest: what the ingestion drivers (C15 directory and archive indexers, C14 git
// indexer) share: content descriptors of the abstract scenarios, the bytes they stand for, and
// the projection of the shards an indexer wrote to abstract documents
// (index.NewSearcher + Search(Const true, Whole)).
package ingest

import (
	"context"
	"encoding/json"
	"fmt"
	"os"
	"path/filepath"
	"runtime"
	"runtime/debug"
	"sort"
	"unicode/utf8"

	"github.com/sourcegraph/zoekt"
	"github.com/sourcegraph/zoekt/index"
	"github.com/sourcegraph/zoekt/internal/verifkit"
	"github.com/sourcegraph/zoekt/query"
)

// CD is a content descriptor: synthetic content number CID of Size bytes (with a NUL byte iff
// Nul), or the literal text Text (Lit).  CID 0 is the empty content.
type CD struct {
	CID  int   `json:"cid"`
	Size int   `json:"size"`
	Nul  bool  `json:"nul"`
	Lit  bool  `json:"lit"`
	Text []int `json:"text"`
}

func Syn(cid, size int, nul bool) CD { return CD{CID: cid, Size: size, Nul: nul, Text: []int{}} }
func LitText(s string) CD              { return CD{Lit: true, Text: verifkit.Runes(s)} }

const b62 = "0123456789ABCDEFGHIJKLMNOPQRSTUVWXYZabcdefghijklmnopqrstuvwxyz"

// Bytes returns the content the descriptor stands for.  Synthetic contents of at least 3
// bytes are distinct for distinct CIDs (< 3844); a NUL needs Size >= 6.
func (cd CD) Bytes() []byte {
	if cd.Lit {
		return []byte(Str(cd.Text))
	}
	if cd.Size == 0 {
		return []byte{}
	}
	buf := make([]byte, 0, cd.Size+32)
	buf = append(buf, b62[(cd.CID/62)%62], b62[cd.CID%62], ':')
	if cd.Nul {
		buf = append(buf, 0)
	}
	for k := 0; len(buf) < cd.Size; k++ {
		buf = append(buf, fmt.Sprintf("w%d of %d\n", k%7, cd.CID%11)...)
	}
	return buf[:cd.Size]
}

func Str(cps []int) string {
	rs := make([]rune, len(cps))
	for i, c := range cps {
		rs[i] = rune(c)
	}
	return string(rs)
}

// Doc is an abstract document: C >= 0 content number, C = -1 literal text T,
// -2/-3/-4 not indexed (too large / binary / too small), -5 another skip explanation,
// -6 content that is neither known nor valid UTF-8.
type Doc struct {
	Name     []int    `json:"name"`
	C        int      `json:"c"`
	T        []int    `json:"t"`
	Branches []string `json:"branches"`
}

const (
	markerPrefix   = "NOT-INDEXED: "
	markerTooLarge = "NOT-INDEXED: exceeds the maximum size limit"
	markerBinary   = "NOT-INDEXED: contains binary content"
	markerTooSmall = "NOT-INDEXED: contains too few trigrams"
)

// Table maps the bytes of the synthetic contents of a scenario to their numbers.
type Table map[string]int

func (t Table) Add(cd CD) {
	if !cd.Lit {
		if _, ok := t[string(cd.Bytes())]; !ok {
			t[string(cd.Bytes())] = cd.CID
		}
	}
}

func (t Table) classify(content []byte) (int, []int) {
	if cid, ok := t[string(content)]; ok {
		return cid, []int{}
	}
	s := string(content)
	switch s {
	case markerTooLarge:
		return -2, []int{}
	case markerBinary:
		return -3, []int{}
	case markerTooSmall:
		return -4, []int{}
	}
	if len(s) >= len(markerPrefix) && s[:len(markerPrefix)] == markerPrefix {
		return -5, verifkit.Runes(s)
	}
	if len(content) == 0 {
		return 0, []int{}
	}
	if !utf8.Valid(content) {
		return -6, []int{}
	}
	return -1, verifkit.Runes(s)
}

// Project reads every shard in dir and returns all documents (any order made canonical).
func Project(dir string, table Table) ([]Doc, error) {
	shards, err := filepath.Glob(filepath.Join(dir, "*.zoekt"))
	if err != nil {
		return nil, err
	}
	sort.Strings(shards)
	docs := []Doc{}
	for _, p := range shards {
		f, err := os.Open(p)
		if err != nil {
			return nil, err
		}
		iFile, err := index.NewIndexFile(f)
		if err != nil {
			f.Close()
			return nil, fmt.Errorf("%s: %w", filepath.Base(p), err)
		}
		s, err := index.NewSearcher(iFile)
		if err != nil {
			iFile.Close()
			return nil, fmt.Errorf("%s: %w", filepath.Base(p), err)
		}
		res, err := s.Search(context.Background(), &query.Const{Value: true}, &zoekt.SearchOptions{Whole: true})
		if err != nil {
			s.Close()
			return nil, fmt.Errorf("%s: %w", filepath.Base(p), err)
		}
		// contents point into the mapped shard: classify before closing
		for _, fm := range res.Files {
			c, t := table.classify(fm.Content)
			br := append([]string{}, fm.Branches...)
			docs = append(docs, Doc{Name: verifkit.Runes(fm.FileName), C: c, T: t, Branches: br})
		}
		s.Close()
	}
	sort.SliceStable(docs, func(i, j int) bool {
		a, b := Str(docs[i].Name), Str(docs[j].Name)
		if a != b {
			return a < b
		}
		return docs[i].C < docs[j].C
	})
	return docs, nil
}

// Outcome of one indexer run.
type Outcome struct {
	Kind string `json:"kind"` // ok | error | panic
	Msg  string `json:"msg"`
	Docs []Doc  `json:"docs"`
}

// Run executes f (the indexer) with panics caught and projects indexDir when f succeeded.
func Run(indexDir string, table Table, f func() error) Outcome {
	var err error
	manualGC()
	Progress("c15_phase.json", "indexing")
	p := verifkit.Catch(func() { err = f() })
	Progress("c15_phase.json", "projecting")
	if p != nil {
		return Outcome{Kind: "panic", Msg: fmt.Sprint(p), Docs: []Doc{}}
	}
	if err != nil {
		return Outcome{Kind: "error", Msg: err.Error(), Docs: []Doc{}}
	}
	docs, err := Project(indexDir, table)
	if err != nil {
		return Outcome{Kind: "unreadable", Msg: err.Error(), Docs: []Doc{}}
	}
	return Outcome{Kind: "ok", Msg: "", Docs: docs}
}

// Progress records the scenario that is about to run, so that a process death (log.Fatal or
// a panic on another goroutine) can be attributed.
func Progress(name string, v any) {
	w := os.Getenv("VERIF_WORK")
	if w == "" {
		return
	}
	b, _ := json.Marshal(v)
	_ = os.WriteFile(filepath.Join(w, name), b, 0o644)
}

var runs int

// Every index.Builder allocates two 16 MB posting tables; with the default GC policy the
// runtime spends most of a scenario clearing and scanning them again.  The drivers collect
// by hand every 40 runs instead (no effect on what the indexers compute).
func manualGC() {
	if runs == 0 {
		debug.SetGCPercent(-1)
	}
	runs++
	if runs%40 == 0 {
		runtime.GC()
		debug.FreeOSMemory()
	}
}
