"""verifkit (python side): orchestration shared by every check.

A check is a python module checks/<id>.py with `def run(ctx)`.  It uses ctx to
  * run Go drivers compiled *into* /repo's packages through `go test -overlay`
    (files are only added, /repo's working tree is what gets compiled),
  * run TLC on the specification (model checking, behaviour generation, trace validation),
  * report violations / known findings and write evidence/<id>.json.

Exit codes: 0 property held on everything explored; 1 VIOLATION (from behaviour of the real
code only); 2 inconclusive (infrastructure problem, timeout, unreproduced model counterexample).
"""
import glob
import json
import os
import re
import shutil
import subprocess
import sys
import time

VERIF = os.path.dirname(os.path.dirname(os.path.abspath(__file__)))
REPO = os.environ.get("VERIF_REPO", "/repo")
# runs against a scratch tree (seeded changes, mutation tests) never touch the committed evidence/replays
OUT = VERIF if REPO == "/repo" else os.path.join("/tmp", "verif_scratch_out", os.path.basename(REPO.rstrip("/")))
MODULE = "github.com/sourcegraph/zoekt"
TLA_JAR = "/opt/veriftools/tla/tla2tools.jar"
TLA_CP = TLA_JAR + ":/opt/veriftools/tla/CommunityModules-deps.jar"
NCPU = os.cpu_count() or 4


def zoekt_panic(out):
    """If a driver process died from a Go panic whose innermost non-runtime frame is code of the
    repository under test (not a driver file added by the overlay), return (message, function): the
    real code crashed on input the driver built with the real code.  Otherwise None."""
    i = out.find("panic: ")
    if i < 0 or "[recovered]" in out[i:i + 200] and "zz_verif_" in out[i:i + 3000].split("\n\n")[0]:
        pass
    if i < 0:
        return None
    msg = out[i + 7:].split("\n", 1)[0][:200]
    frames = re.findall(r"^(github\.com/sourcegraph/zoekt\S*)\(.*\n\t(\S+?):(\d+)", out[i:], re.M)
    for fn, path, _ in frames:
        if "/internal/verifkit" in fn or "zz_verif_" in path:
            return None          # the driver itself is the innermost frame
        return msg, fn.rsplit("/", 1)[-1]
    return None


class Inconclusive(Exception):
    pass


class TLCResult:
    def __init__(self, rc, out, wall):
        self.rc = rc
        self.out = out
        self.wall = wall
        self.generated = 0
        self.distinct = 0
        self.depth = 0
        m = None
        for m in re.finditer(r"(\d+) states generated, (\d+) distinct states found", out):
            pass
        if m:
            self.generated = int(m.group(1))
            self.distinct = int(m.group(2))
        m = re.search(r"The depth of the complete state graph search is (\d+)", out)
        if m:
            self.depth = int(m.group(1))
        self.ok = "Model checking completed. No error has been found." in out or (
            rc == 0 and "Error:" not in out)
        self.invariant = None
        m = re.search(r"Invariant (\S+) is violated", out)
        if m:
            self.invariant = m.group(1)
        m = re.search(r"Action property (\S+) is violated", out)
        if m:
            self.invariant = m.group(1)
        if "Temporal properties were violated" in out:
            self.invariant = self.invariant or "temporal"
        self.deadlock = "Deadlock reached" in out
        self.error = None
        if not self.ok and not self.invariant and not self.deadlock:
            m = re.search(r"Error: (.*)", out)
            self.error = m.group(1) if m else "rc=%d" % rc

    def printed(self, tag):
        """values printed by the spec with PrintT(<<"tag", ToJson(x)>>) -> python objects."""
        res = []
        pat = re.compile(r'^<<"%s", (".*")>>$' % re.escape(tag))
        for line in self.out.splitlines():
            m = pat.match(line.strip())
            if m:
                try:
                    res.append(json.loads(json.loads(m.group(1))))
                except Exception:
                    res.append(tla_unquote(m.group(1)))
        return res

    def printed_raw(self, tag):
        res = []
        pat = re.compile(r'^<<"%s", (.*)>>$' % re.escape(tag))
        for line in self.out.splitlines():
            m = pat.match(line.strip())
            if m:
                res.append(m.group(1))
        return res

    def coverage_zero(self):
        """action/sub-expression locations reported with count 0 by -coverage."""
        return [l.strip() for l in self.out.splitlines() if re.search(r": 0$", l.strip()) and "line" in l]


def tla_unquote(s):
    try:
        return json.loads(s)
    except Exception:
        return s


class Ctx:
    def __init__(self, pid, tier, seed, replay=None):
        self.pid = pid
        self.tier = tier
        self.seed = seed
        self.replay = replay
        self.t0 = time.time()
        self.work = os.path.join(VERIF, ".work", "%s.%d" % (pid, os.getpid()))
        shutil.rmtree(self.work, ignore_errors=True)
        os.makedirs(self.work)
        self.violations = []      # list of dict(signature, detail, replay)
        self.sig_counts = {}
        self.known_hits = []      # list of (finding, detail)
        self.known = [f for f in load_known() if f.get("property") == pid]
        self.cov = {}
        self.assumptions = []
        self.notes = []
        self.level = "model_checking"
        self.keep = bool(os.environ.get("VERIF_KEEP"))
        self.tlc_states = 0
        self.tlc_transitions = 0
        self.traces_validated = 0
        self.samples = []
        self.tlc_runs = []
        self._overlay_cache = {}

    # ---------------------------------------------------------------- helpers
    @property
    def thorough(self):
        return self.tier == "thorough"

    def pick(self, quick, thorough):
        return thorough if self.thorough else quick

    def path(self, *a):
        p = os.path.join(self.work, *a)
        os.makedirs(os.path.dirname(p), exist_ok=True)
        return p

    def mkdir(self, *a):
        p = os.path.join(self.work, *a)
        os.makedirs(p, exist_ok=True)
        return p

    def log(self, *a):
        print("[%s %6.1fs]" % (self.pid, time.time() - self.t0), *a, flush=True)

    # ---------------------------------------------------------------- go
    def goenv(self, extra=None):
        env = dict(os.environ)
        env.setdefault("GOFLAGS", "-mod=mod")
        env["GOPROXY"] = "off"
        env.pop("GOSUMDB", None)
        env["VERIF_SEED"] = str(self.seed)
        env["VERIF_TIER"] = self.tier
        env["VERIF_WORK"] = self.work
        if extra:
            env.update({k: str(v) for k, v in extra.items()})
        return env

    def overlay(self, pkg, files=None):
        """overlay json adding harness/drivers/<pkg>/<files> (default: all) and verifkit."""
        key = (pkg, tuple(files or ()))
        if key in self._overlay_cache:
            return self._overlay_cache[key]
        rep = {}
        vkroot = os.path.join(VERIF, "harness", "verifkit")
        for f in sorted(glob.glob(os.path.join(vkroot, "**", "*.go"), recursive=True)):
            rep[os.path.join(REPO, "internal", "verifkit", os.path.relpath(f, vkroot))] = f
        ddir = os.path.join(VERIF, "harness", "drivers", pkg)
        names = files or [os.path.basename(p) for p in sorted(glob.glob(os.path.join(ddir, "*.go")))]
        for n in names:
            src = os.path.join(ddir, n)
            if not os.path.exists(src):
                raise Inconclusive("driver file missing: " + src)
            rep[os.path.join(REPO, pkg, "zz_verif_" + n)] = src
        p = self.path("overlay_%s.json" % re.sub(r"\W", "_", pkg + "_" + "_".join(names))[:150])
        with open(p, "w") as fh:
            json.dump({"Replace": rep}, fh, indent=1)
        self._overlay_cache[key] = p
        return p

    def go_test_cmd(self, pkg, run, files=None, race=False, timeout=600, binary=None):
        cmd = ["go", "test", "-tags", "verif", "-overlay", self.overlay(pkg, files), "-vet=off",
               "-count=1", "-timeout", "%ds" % timeout, "-run", run]
        if race:
            cmd.append("-race")
        if binary:
            cmd += ["-c", "-o", binary]
        else:
            cmd.append("-v")
        cmd.append("./" + pkg)
        return cmd

    def go_build_test(self, pkg, files=None, race=False):
        """compile the test binary for pkg (with drivers) and return its path."""
        binp = self.path("bin", re.sub(r"\W", "_", pkg) + (".race" if race else "") + ".test")
        cmd = self.go_test_cmd(pkg, "^$", files, race, binary=binp)
        t = time.time()
        r = subprocess.run(cmd, cwd=REPO, env=self.goenv(), stdout=subprocess.PIPE,
                           stderr=subprocess.STDOUT, text=True)
        if r.returncode != 0 or not os.path.exists(binp):
            raise Inconclusive("go test -c failed for %s:\n%s" % (pkg, r.stdout[-4000:]))
        self.log("built %s in %.1fs" % (os.path.basename(binp), time.time() - t))
        return binp

    def run_bin(self, binp, run, env=None, timeout=600, cwd=None, prefix=None, check=True):
        """run a compiled test binary; returns (rc, output)."""
        cmd = (prefix or []) + [binp, "-test.run", run, "-test.v", "-test.count=1",
                                "-test.timeout", "%ds" % timeout]
        try:
            r = subprocess.run(cmd, cwd=cwd or self.work, env=self.goenv(env), stdout=subprocess.PIPE,
                               stderr=subprocess.STDOUT, text=True, errors="replace", timeout=timeout + 30)
        except subprocess.TimeoutExpired as e:
            return 124, (e.stdout or b"").decode("utf8", "replace") if isinstance(e.stdout, bytes) else (e.stdout or "")
        if check and "--- PASS" not in r.stdout and "PASS" not in r.stdout.split("\n")[-3:]:
            pass
        return r.returncode, r.stdout

    def go_test(self, pkg, run, files=None, env=None, race=False, timeout=600):
        """go test -run <run> on pkg with drivers overlaid. returns (rc, output)."""
        cmd = self.go_test_cmd(pkg, run, files, race, timeout)
        t = time.time()
        try:
            r = subprocess.run(cmd, cwd=REPO, env=self.goenv(env), stdout=subprocess.PIPE,
                               stderr=subprocess.STDOUT, text=True, errors="replace", timeout=timeout + 300)
        except subprocess.TimeoutExpired as e:
            out = e.stdout.decode("utf8", "replace") if isinstance(e.stdout, bytes) else (e.stdout or "")
            return 124, out
        self.log("go test %s -run %s: rc=%d in %.1fs" % (pkg, run, r.returncode, time.time() - t))
        return r.returncode, r.stdout

    def driver(self, pkg, run, files=None, env=None, race=False, timeout=600, out="trace.ndjson"):
        """run a driver that writes $VERIF_OUT; a driver that fails to build or does not
        complete is an infrastructure problem (exit 2), not a violation -- drivers report
        what the code did in the trace and always PASS."""
        outp = self.path(out)
        e = dict(env or {})
        e["VERIF_OUT"] = outp
        rc, o = self.go_test(pkg, run, files, e, race, timeout)
        with open(self.path("driver_%s.log" % re.sub(r"\W", "_", run)), "w") as fh:
            fh.write(o)
        if "[build failed]" in o or "[setup failed]" in o or "cannot find package" in o:
            raise Inconclusive("driver build failed:\n" + o[-6000:])
        return rc, o, outp

    # ---------------------------------------------------------------- TLC
    def tlc_dir(self, name="tlc"):
        d = self.mkdir(name)
        for f in glob.glob(os.path.join(VERIF, "spec", "**", "*.tla"), recursive=True):
            shutil.copy(f, d)
        for f in glob.glob(os.path.join(VERIF, "spec", "cfg", "*.cfg")):
            shutil.copy(f, d)
        return d

    def tlc(self, module, cfg, name="tlc", workers=None, timeout=600, simulate=None, depth=None,
            coverage=False, defines=None, heap="4g", dfs=False, count=True, extra=None, seed=None,
            deadlock=None):
        """run TLC on spec module `module` with config `cfg` (file names inside spec/).
        defines: dict written as extra CONSTANT overrides appended to a copy of the cfg."""
        d = os.path.join(self.work, name)
        if not os.path.isdir(d):
            d = self.tlc_dir(name)
        cfgp = os.path.join(d, cfg)
        if defines:
            base = open(cfgp).read()
            cfg = "gen_" + re.sub(r"\W", "_", "%s_%d" % (cfg, len(self.tlc_runs))) + ".cfg"
            cfgp = os.path.join(d, cfg)
            with open(cfgp, "w") as fh:
                fh.write(base + "\nCONSTANTS\n" + "\n".join("  %s = %s" % kv for kv in defines.items()) + "\n")
        meta = os.path.join(d, "meta_%d" % len(self.tlc_runs))
        if workers is None:
            workers = 1 if simulate else min(NCPU, 8)
        jprops = ["-Xss256m", "-Xmx" + heap, "-XX:+UseParallelGC"]
        if dfs:
            jprops.append("-Dtlc2.tool.queue.IStateQueue=StateDeque")
        cmd = ["timeout", str(timeout), "java"] + jprops + ["-cp", TLA_CP, "tlc2.TLC", "-workers", str(workers),
               "-metadir", meta, "-config", cfg, "-noGenerateSpecTE"]
        if deadlock is False:
            cmd.append("-deadlock")
        if simulate:
            cmd += ["-simulate", simulate]
        if depth:
            cmd += ["-depth", str(depth)]
        if seed is not None:
            cmd += ["-seed", str(seed)]
        if coverage:
            cmd += ["-coverage", "1"]
        if extra:
            cmd += extra
        cmd.append(module)
        t = time.time()
        r = subprocess.run(cmd, cwd=d, stdout=subprocess.PIPE, stderr=subprocess.STDOUT, text=True,
                           errors="replace")
        wall = time.time() - t
        shutil.rmtree(meta, ignore_errors=True)
        res = TLCResult(r.returncode, r.stdout, wall)
        logp = os.path.join(d, "tlc_%d_%s.log" % (len(self.tlc_runs), module))
        with open(logp, "w") as fh:
            fh.write(" ".join(cmd) + "\n" + r.stdout)
        res.log = logp
        self.tlc_runs.append({"module": module, "cfg": cfg, "generated": res.generated,
                              "distinct": res.distinct, "wall_s": round(wall, 1),
                              "ok": res.ok, "mode": "simulate" if simulate else "bfs"})
        self.log("tlc %s/%s: rc=%d gen=%d distinct=%d %.1fs%s" % (
            module, cfg, r.returncode, res.generated, res.distinct, wall,
            "" if res.ok else " NOT-OK(%s)" % (res.invariant or res.error or "deadlock")))
        if r.returncode == 124:
            raise Inconclusive("TLC timeout on %s/%s" % (module, cfg))
        if "StackOverflowError" in r.stdout or "OutOfMemoryError" in r.stdout:
            raise Inconclusive("TLC resource failure on %s/%s, see %s" % (module, cfg, logp))
        if count and not simulate:
            self.tlc_states += res.distinct
            self.tlc_transitions += res.generated
        return res

    def model_check(self, module, cfg, **kw):
        """exhaustive model check that is expected to pass on the design; a failure here is a
        design-level statement (exit 2 unless the check turns it into a reproduced behaviour)."""
        res = self.tlc(module, cfg, **kw)
        if not res.ok:
            raise Inconclusive("model %s/%s does not satisfy its properties (%s); see %s" % (
                module, cfg, res.invariant or res.error or "deadlock", res.log))
        return res

    def validate_trace(self, module, cfg, trace_path, name="tlc", timeout=600, trace_file="trace.ndjson",
                       dfs=False, heap="4g", defines=None):
        """run a Trace_* spec over an ndjson trace.  The trace specs never block: they print
        <<"REJECTED", "<json>">> for each event the specification does not allow and
        <<"ACCEPTED", n>> at the end.  Returns (accepted_events, [rejected json objects])."""
        d = os.path.join(self.work, name)
        if not os.path.isdir(d):
            d = self.tlc_dir(name)
        dst = os.path.join(d, trace_file)
        if os.path.abspath(trace_path) != os.path.abspath(dst):
            shutil.copy(trace_path, dst)
        n = sum(1 for _ in open(dst))
        if n == 0:
            raise Inconclusive("empty trace " + trace_path)
        res = self.tlc(module, cfg, name=name, workers=1, timeout=timeout, count=False, dfs=dfs, heap=heap,
                       deadlock=False, defines=defines)
        rej = res.printed("REJECTED")
        acc = res.printed_raw("ACCEPTED")
        if not res.ok and not rej:
            raise Inconclusive("trace validation run failed (%s); see %s" % (res.invariant or res.error, res.log))
        if not acc:
            raise Inconclusive("trace spec did not reach the end of the trace; see " + res.log)
        consumed = int(acc[-1])
        if consumed != n:
            raise Inconclusive("trace spec consumed %d of %d events; see %s" % (consumed, n, res.log))
        return n - len(rej), rej

    def validate_trace_sharded(self, module, cfg, trace_path, header_lines=1, shards=8, name="tlcs",
                               timeout=900, heap="3g", group_start=None):
        """like validate_trace but splits the events after the first `header_lines` lines into
        `shards` contiguous parts (each prefixed with the header) validated by parallel TLC runs.
        group_start(line_json_text) -> True marks lines where a part may begin (e.g. a corpus or
        reset event); default: every line. Returns (accepted, rejected) with original line numbers."""
        import concurrent.futures
        lines = [ln for ln in open(trace_path).read().split("\n") if ln]   # not splitlines(): U+0085/U+2028 may occur raw in JSON
        head, body = lines[:header_lines], lines[header_lines:]
        if not body:
            raise Inconclusive("empty trace " + trace_path)
        starts = [i for i, ln in enumerate(body) if group_start is None or group_start(ln)]
        if not starts or starts[0] != 0:
            starts = [0] + starts
        shards = max(1, min(shards, len(starts)))
        per = len(body) / float(shards)
        cuts = [0]
        for k in range(1, shards):
            target = int(k * per)
            cand = [x for x in starts if x >= target]
            if cand and cand[0] > cuts[-1]:
                cuts.append(cand[0])
        cuts.append(len(body))
        parts = [(cuts[i], cuts[i + 1]) for i in range(len(cuts) - 1) if cuts[i + 1] > cuts[i]]

        def one(k):
            a, b = parts[k]
            d = self.tlc_dir("%s_%d" % (name, k))
            with open(os.path.join(d, "trace.ndjson"), "w") as fh:
                fh.write("\n".join(head + body[a:b]) + "\n")
            meta = os.path.join(d, "meta")
            cmd = ["timeout", str(timeout), "java", "-Xss256m", "-Xmx" + heap, "-XX:+UseParallelGC", "-cp", TLA_CP,
                   "tlc2.TLC", "-workers", "1", "-metadir", meta, "-config", cfg, "-noGenerateSpecTE", "-deadlock", module]
            t = time.time()
            r = subprocess.run(cmd, cwd=d, stdout=subprocess.PIPE, stderr=subprocess.STDOUT, text=True, errors="replace")
            shutil.rmtree(meta, ignore_errors=True)
            res = TLCResult(r.returncode, r.stdout, time.time() - t)
            with open(os.path.join(d, "tlc.log"), "w") as fh:
                fh.write(r.stdout)
            res.log = os.path.join(d, "tlc.log")
            return k, res

        t0 = time.time()
        with concurrent.futures.ThreadPoolExecutor(max_workers=min(len(parts), NCPU)) as ex:
            results = list(ex.map(one, range(len(parts))))
        rejected = []
        for k, res in results:
            a, b = parts[k]
            n = len(head) + (b - a)
            if res.rc == 124:
                raise Inconclusive("TLC timeout validating part %d of %s" % (k, trace_path))
            if "StackOverflowError" in res.out or "OutOfMemoryError" in res.out:
                raise Inconclusive("TLC resource failure validating trace part %d; see %s" % (k, res.log))
            rej = res.printed("REJECTED")
            acc = res.printed_raw("ACCEPTED")
            if not acc or int(acc[-1]) != n:
                raise Inconclusive("trace spec consumed %s of %d events in part %d; see %s" % (acc[-1] if acc else "?", n, k, res.log))
            for r in rej:
                if isinstance(r, dict) and "line" in r and r["line"] > len(head):
                    r["line"] = r["line"] - len(head) + a + len(head)
                rejected.append(r)
        self.tlc_runs.append({"module": module, "cfg": cfg, "mode": "trace-validation", "parts": len(parts),
                              "events": len(lines), "wall_s": round(time.time() - t0, 1)})
        self.log("tlc %s: %d events in %d parallel parts, %d rejected, %.1fs" % (module, len(lines), len(parts), len(rejected), time.time() - t0))
        return len(lines) - len({r["line"] for r in rejected if isinstance(r, dict) and "line" in r}), rejected

    # ---------------------------------------------------------------- verdicts
    def violation(self, signature, detail, replay=None):
        """an observed behaviour of the real code that the specification forbids."""
        for f in self.known:
            if f.get("status") == "known" and sig_match(f, signature):
                if not any(k[0] is f for k in self.known_hits):
                    print("KNOWN-FINDING: property=%s %s (%s)" % (self.pid, f.get("description", ""), f.get("id")), flush=True)
                self.known_hits.append((f, signature))
                return False
        os.makedirs(os.path.join(OUT, "replays"), exist_ok=True)
        rp = os.path.join(OUT, "replays", "%s_%d_%d.json" % (self.pid, self.seed, min(len(self.violations), 25)))
        if len(self.violations) <= 25:
            with open(rp, "w") as fh:
                json.dump({"property": self.pid, "seed": self.seed, "tier": self.tier, "signature": signature,
                           "detail": detail, "replay": replay}, fh, indent=1, default=str)
        self.violations.append({"signature": signature, "replay": rp})
        self.sig_counts[signature] = self.sig_counts.get(signature, 0) + 1
        if len(self.violations) <= 20:
            print("VIOLATION property=%s replay=%s" % (self.pid, rp), flush=True)
            print("  signature: %s" % signature, flush=True)
            print("  detail: %s" % (json.dumps(detail, default=str)[:1500]), flush=True)
        return True

    def sample(self, s):
        if len(self.samples) < 6:
            self.samples.append(s)

    def finish(self, evaluations, distinct_nontrivial, rule, exhaustive=False, extra=None):
        cov = {
            "evaluations": int(evaluations),
            "distinct_nontrivial": int(distinct_nontrivial),
            "rule": rule,
            "samples": self.samples or ["(none recorded)"],
            "traces_validated_against_impl": int(self.traces_validated),
            "exhaustive": bool(exhaustive),
            "tlc_runs": self.tlc_runs,
            "known_findings_hit": sorted({f.get("id") for f, _ in self.known_hits}),
            "known_finding_occurrences": len(self.known_hits),
        }
        if self.tlc_states:
            cov["states"] = int(self.tlc_states)
            cov["transitions"] = int(max(self.tlc_transitions, 1))
        if self.notes:
            cov["notes"] = self.notes
        if extra:
            cov.update(extra)
        ev = {
            "property_id": self.pid, "tier": self.tier, "seed": self.seed, "level": self.level,
            "coverage": cov, "assumptions": self.assumptions, "wall_s": round(time.time() - self.t0, 1),
            "violations": len(self.violations),
        }
        os.makedirs(os.path.join(OUT, "evidence"), exist_ok=True)
        with open(os.path.join(OUT, "evidence", self.pid + ".json"), "w") as fh:
            json.dump(ev, fh, indent=1, default=str)
        for sg, n in sorted(self.sig_counts.items()):
            print("  violation-signature %s x%d" % (sg, n), flush=True)
        self.log("done: evaluations=%d nontrivial=%d traces=%d states=%d violations=%d known=%d wall=%.0fs" % (
            evaluations, distinct_nontrivial, self.traces_validated, self.tlc_states, len(self.violations),
            len(self.known_hits), time.time() - self.t0))
        return 1 if self.violations else 0

    def cleanup(self):
        if not self.keep:
            shutil.rmtree(self.work, ignore_errors=True)


def sig_match(f, signature):
    s = f.get("signature")
    if s is None:
        return False
    if isinstance(s, list):
        return signature in s
    if f.get("signature_is_regex"):
        return re.fullmatch(s, signature) is not None
    return s == signature


def load_known():
    p = os.path.join(VERIF, "known_findings.json")
    if not os.path.exists(p):
        return []
    return json.load(open(p)).get("findings", [])


def read_ndjson(p):
    res = []
    with open(p) as fh:
        for line in fh:
            line = line.strip()
            if line:
                res.append(json.loads(line))
    return res


def write_ndjson(p, rows):
    with open(p, "w") as fh:
        for r in rows:
            fh.write(json.dumps(r, separators=(",", ":")) + "\n")
